#!/venv/bin/python
"""Mutation self-test driver (not a registered check).

  selftest/run.py [--only id,id] [--jobs N] [--suite] [--seeded]

For every mutant: copy /repo/scoda to a scratch directory OUTSIDE /repo and /verif, apply the substitution, run the
property's quick check with VERIF_REPO pointing at the copy, record whether it exits 1 with a VIOLATION line, delete
the copy.  With --suite the repository's own tests are additionally run on the mutant (serially, from a scratch copy of
test/) to record whether the suite can see it.  --seeded does the same for the changes kept under /verif/seeded/."""
import argparse
import concurrent.futures as cf
import glob
import json
import os
import shutil
import subprocess
import sys
import tempfile
import time

HERE = os.path.dirname(os.path.abspath(__file__))
ROOT = os.path.dirname(HERE)
sys.path.insert(0, HERE)
REPO = "/repo"


def make_copy(prefix):
    d = tempfile.mkdtemp(prefix=prefix, dir="/tmp")
    shutil.copytree(os.path.join(REPO, "scoda"), os.path.join(d, "scoda"), ignore=shutil.ignore_patterns("__pycache__"))
    return d


def run_check(prop, tree, tier="quick", seed=None):
    seed = seed or os.environ.get("SELFTEST_SEED", "0")
    env = dict(os.environ, VERIF_REPO=tree, VERIF_SEED=seed)
    p = subprocess.run([os.path.join(ROOT, "run"), prop, "--tier", tier, "--no-insitu"], capture_output=True, text=True, env=env, timeout=3600)
    claims = ""
    for line in p.stdout.splitlines():
        if line.strip().startswith("claims:"):
            claims = line.strip()[:200]
            break
    import re
    m = re.search(r"\] (\d+) violating case\(s\)", p.stdout)
    if m:
        claims += f" [{m.group(1)} violating cases]"
    return p.returncode, claims, p.stdout[-800:]


def run_suite(tree):
    d = tempfile.mkdtemp(prefix="st_suite_", dir="/tmp")
    try:
        shutil.copytree(os.path.join(REPO, "test"), os.path.join(d, "test"), ignore=shutil.ignore_patterns("__pycache__"))
        shutil.copytree(os.path.join(tree, "scoda"), os.path.join(d, "scoda"))
        p = subprocess.run(["/venv/bin/python", "-m", "pytest", "-q", "-p", "no:cacheprovider", "--timeout=900", "-x", "-o", "log_cli=false"],
                           cwd=d, capture_output=True, text=True, timeout=3000,
                           env=dict(os.environ, PYTHONPATH=d, PYTHONDONTWRITEBYTECODE="1"))
        tail = p.stdout.strip().splitlines()[-1] if p.stdout.strip() else ""
        return p.returncode == 0, tail[-120:]
    finally:
        shutil.rmtree(d, ignore_errors=True)


def one_mutant(m, suite):
    mid, prop, path, old, new, desc = m
    tree = make_copy(f"st_{mid}_")
    try:
        fp = os.path.join(tree, path)
        s = open(fp).read()
        if s.count(old) != 1:
            return {"id": mid, "property": prop, "status": "stale_mutant", "detail": f"pattern occurs {s.count(old)}x in {path}"}
        open(fp, "w").write(s.replace(old, new))
        t0 = time.time()
        rc, claims, tail = run_check(prop, tree)
        res = {"id": mid, "property": prop, "description": desc, "exit": rc, "detected": rc == 1, "claims": claims,
               "wall_s": round(time.time() - t0, 1)}
        if rc not in (0, 1):
            res["tail"] = tail[-400:]
        if suite:
            ok, tail = run_suite(tree)
            res["suite_passes"] = ok
            res["suite_tail"] = tail
        return res
    finally:
        shutil.rmtree(tree, ignore_errors=True)


def one_seeded(d, suite):
    meta = json.load(open(os.path.join(d, "meta.json")))
    if meta.get("not_a_violation"):
        # re-examined after collection: the change has no effect on anything the property observes
        return {"id": os.path.basename(d), "property": meta["property"], "status": "not_a_violation", "why": meta["not_a_violation"]["why"][:200]}
    if meta.get("outside_armed_domain"):
        # a demonstrated violation on an input the checks deliberately do not arm on (reason in meta.json and DESIGN 8.3): reported as
        # not detected, never counted as detected
        return {"id": os.path.basename(d), "property": meta["property"], "status": "outside_armed_domain", "detected": False,
                "why": meta["outside_armed_domain"]["why"][:300]}
    if meta.get("superseded"):
        # a later fix: commit made this change harmless on the current tree; kept for the record only
        return {"id": os.path.basename(d), "property": meta["property"], "status": "superseded", "superseded": meta["superseded"]}
    tree = make_copy("st_seeded_")
    try:
        p = subprocess.run(["patch", "-p1", "-F0", "-d", tree, "-i", os.path.join(d, "patch.diff")], capture_output=True, text=True)
        if p.returncode != 0:
            return {"id": os.path.basename(d), "status": "patch_failed", "detail": p.stdout[-300:] + p.stderr[-300:]}
        out = {"id": os.path.basename(d), "property": meta["property"], "checks": {}}
        for prop in [meta["property"]] + list(meta.get("also_run", [])):
            rc, claims, tail = run_check(prop, tree)
            out["checks"][prop] = {"exit": rc, "claims": claims}
        out["detected"] = any(v["exit"] == 1 for v in out["checks"].values())
        if suite:
            ok, tail = run_suite(tree)
            out["suite_passes"] = ok
        return out
    finally:
        shutil.rmtree(tree, ignore_errors=True)


def main():
    ap = argparse.ArgumentParser()
    ap.add_argument("--only")
    ap.add_argument("--jobs", type=int, default=4)
    ap.add_argument("--suite", action="store_true")
    ap.add_argument("--seeded", action="store_true")
    a = ap.parse_args()
    from mutants import MUTANTS
    only = set(a.only.split(",")) if a.only else None
    results = []
    with cf.ThreadPoolExecutor(max_workers=a.jobs) as ex:
        futs = []
        if a.seeded:
            for d in sorted(glob.glob(os.path.join(ROOT, "seeded", "*"))):
                if os.path.exists(os.path.join(d, "patch.diff")) and (not only or os.path.basename(d) in only):
                    futs.append(ex.submit(one_seeded, d, a.suite))
        else:
            for m in MUTANTS:
                if only and m[0] not in only and m[1] not in only:
                    continue
                futs.append(ex.submit(one_mutant, m, a.suite))
        for f in cf.as_completed(futs):
            r = f.result()
            results.append(r)
            print(json.dumps(r)[:400], flush=True)
    results.sort(key=lambda r: r["id"])
    name = "results_seeded.json" if a.seeded else "results.json"
    sd = os.environ.get("SELFTEST_SEED", "0")
    if sd != "0":
        name = name.replace(".json", f"_seed{sd}.json")     # screening runs under another seed do not replace the record
    if not only:
        with open(os.path.join(HERE, name), "w") as f:
            json.dump(results, f, indent=1)
    det = sum(1 for r in results if r.get("detected"))
    print(f"{det}/{len(results)} detected")


if __name__ == "__main__":
    main()

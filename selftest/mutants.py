"""Mutation self-test: realistic property-breaking edits, each a (file, old, new) substitution applied to a scratch
copy of the tree under test.  `selftest/run.py` applies one at a time, runs the property's quick check with
VERIF_REPO pointing at the copy and expects exit 1 with a replayable witness."""

T = "scoda/tokenisation/notelike_tokenisation.py"
S = "scoda/sequences/sequence.py"
A = "scoda/sequences/absolute_sequence.py"
R = "scoda/sequences/relative_sequence.py"
B = "scoda/elements/bar.py"
U = "scoda/misc/util.py"
M = "scoda/misc/music_theory.py"
F = "scoda/midi/midi_file.py"
MM = "scoda/midi/midi_message.py"
MT = "scoda/midi/midi_track.py"
AB = "scoda/sequences/abstract_sequence.py"

MUTANTS = [
    # ---------------------------------------------------------------- C01
    ("c01a", "C01", T, """                    cur_time_bar = 0
                    cur_bar_capacity_remaining = cur_bar_capacity_total

                nxt_rest""", """                    cur_bar_capacity_remaining = cur_bar_capacity_total

                nxt_rest""", "tokenise: in-bar clock not reset at a bar token"),
    ("c01b", "C01", T, """                    cur_time += int(token_parts[i][1])
                    cur_time_bar += int(token_parts[i][1])
                    cur_bar_capacity_remaining -= int(token_parts[i][1])""",
     """                    cur_time += int(token_parts[i][1])
                    cur_time_bar += int(token_parts[i][1])""", "detokenise: rests do not reduce the remaining bar capacity"),
    ("c01c", "C01", U, "np.digitize(velocity, bins, right=True)", "np.digitize(velocity, bins, right=False)",
     "velocity binned with right=False (edge values go one bin up)"),
    ("c01d", "C01", T, """                prv_track = msg_channel
                prv_value = msg_value""", """                prv_track = msg_channel
                prv_value = msg_value if self.flag_running_values else prv_value""",
     "running value not updated when running values are off (harmless by itself: value token is always emitted) — expected NOT detected"),
    ("c01f", "C01", T, """                                   if nxt_rest >= step_size and _can_bridge(nxt_rest - step_size)), None)""",
     """                                   if nxt_rest >= step_size), None)""",
     "tokenise: rests bridged largest-step-first again (the state before fix 8d5a376: 9 = 8 + 1 fails)"),
    ("c01g", "C01", T, """                self._bridgeable_rests.append(any(step_size <= value and self._bridgeable_rests[value - step_size]""",
     """                self._bridgeable_rests.append(any(step_size < value and self._bridgeable_rests[value - step_size]""",
     "tokenise: a remainder equal to a step size is considered unbridgeable (different decomposition or exception)"),
    ("c01e", "C01", T, """                    sequences[prv_track].add_absolute_message(
                        Message(message_type=MessageType.NOTE_OFF, note=note_pitch, time=cur_time + prv_value)""",
     """                    sequences[prv_track].add_absolute_message(
                        Message(message_type=MessageType.NOTE_OFF, note=note_pitch, time=cur_time + max(prv_value, 3))""",
     "detokenise: durations below 3 ticks are lengthened (only non-default note-value sets contain such values)"),
    # ---------------------------------------------------------------- C02
    ("c02a", "C02", T, """            token += f"{TokenisationPrefixes.PITCH.value}_{parts.pop(0):03}-"

            if self.flag_fuse_value:""", """            token += f"{TokenisationPrefixes.PITCH.value}_{parts.pop(0):02}-"

            if self.flag_fuse_value:""", "vocabulary keys format the pitch with two digits, tokenise with three"),
    ("c02b", "C02", T, "range(self.pitch_range[0], self.pitch_range[1] + 1)", "range(self.pitch_range[0], self.pitch_range[1])",
     "vocabulary misses the top pitch of the range"),
    ("c02c", "C02", T, """        self.dictionary[TokenisationPrefixes.BAR.value] = 3
        self._dictionary_size += 1""", """        self.dictionary[TokenisationPrefixes.BAR.value] = 3""", "size counter not incremented for the bar token: duplicate id 3"),
    ("c02d", "C02", T, """            for velocity_bin in self.velocity_bins:
                self.dictionary[f"{TokenisationPrefixes.VELOCITY.value}_{velocity_bin:03}"] = self.dictionary_size""",
     """            for velocity_bin in self.velocity_bins[:-1] or self.velocity_bins:
                self.dictionary[f"{TokenisationPrefixes.VELOCITY.value}_{velocity_bin:03}"] = self.dictionary_size""",
     "unfused velocity tokens: top bin missing from the vocabulary when there is more than one bin"),
    # ---------------------------------------------------------------- C03
    ("c03a", "C03", T, """        state_dict["cur_time_bar"] = cur_time_bar
""", "", "state dictionary: in-bar clock not written"),
    ("c03b", "C03", T, """        prv_shift = state_dict.get("cur_time", 0)""", """        prv_shift = state_dict.get("cur_time_bar", 0)""",
     "carried shift read from the in-bar clock"),
    ("c03c", "C03", T, """        cur_bar_capacity_total = int(self.ppqn * 4 * cur_time_signature_numerator / cur_time_signature_denominator)
        cur_bar_capacity_remaining = state_dict.get("cur_bar_capacity_remaining", cur_bar_capacity_total)""",
     """        cur_bar_capacity_total = int(self.ppqn * 4 * DEFAULT_TIME_SIGNATURE_NUMERATOR / DEFAULT_TIME_SIGNATURE_DENOMINATOR)
        cur_bar_capacity_remaining = state_dict.get("cur_bar_capacity_remaining", cur_bar_capacity_total)""",
     "carried signature ignored when rebuilding the bar capacity at call start"),
    # ---------------------------------------------------------------- C04
    ("c04a", "C04", S, """        self.abs.cutoff(maximum_length=maximum_length, reduced_length=reduced_length)
        self.invalidate_rel()""", """        self.abs.cutoff(maximum_length=maximum_length, reduced_length=reduced_length)""",
     "cutoff forgets to invalidate the relative view"),
    ("c04b", "C04", S, """        cpy_rel = None
        if not self._rel_stale:
            cpy_rel = self.rel.copy()""", """        cpy_rel = None
        if getattr(self, "_rel", None) is not None:
            cpy_rel = self._rel.copy()""", "copy() copies a stale relative view as if it were fresh"),
    ("c04c", "C04", S, """            for message in self.rel._messages:
                self.invalidate_abs()
                yield message""", """            for message in self.rel._messages:
                self.invalidate_rel()
                yield message""", "messages_rel invalidates the wrong view around each yield"),
    ("c04d", "C04", A, """        for msg in self._messages:
            time = msg.time
            # Check if we have to add wait messages""", """        for msg in self._messages:
            if msg.message_type == MessageType.INTERNAL:
                continue
            time = msg.time
            # Check if we have to add wait messages""", "abs->rel conversion drops the trailing rest (cap message ignored)"),
    ("c04e", "C04", S, """        self.rel.pad(padding_length)
        self.invalidate_abs()""", """        self.rel.pad(padding_length)""", "pad forgets to invalidate the absolute view"),
    ("c04f", "C04", S, """        if self._rel_stale:
            self._rel = self._abs.to_relative_sequence()
            self._rel_stale = False

    # Basic Methods""", """        if self._rel_stale:
            self._rel_stale = False

    # Basic Methods""", "refresh marks the relative view fresh without regenerating it"),
    # ---------------------------------------------------------------- C05
    ("c05a", "C05", A, "                        if not position - note_open_timing <= 0:", "                        if not position - note_open_timing < 0:",
     "quantise: a note-off may land on its note-on (note smothered although a later position exists)"),
    ("c05b", "C05", A, """                if note_key not in message_timings \\
                        or not message_to_append.time < message_timings[note_key][1]:""",
     """                if note_key not in message_timings \\
                        or True:""", "quantise: overlap rejection dropped"),
    ("c05c", "C05", A, "            possible_positions = positions_left + positions_right", "            possible_positions = positions_left + positions_left",
     "quantise: only the grid positions to the left are considered"),
    ("c05d", "C05", A, """                valid_positions += possible_positions
                message_to_append.time = valid_positions[find_minimal_distance(message_original_time, valid_positions)]

            if message_to_append is not None:""", """                valid_positions += possible_positions
                message_to_append.time = valid_positions[find_minimal_distance(message_original_time, valid_positions)]
                if msg.message_type == MessageType.CONTROL_CHANGE and message_to_append.time == 0 and message_original_time > 0:
                    message_to_append = None

            if message_to_append is not None:""", "quantise: a control change that snaps to tick 0 is dropped"),
    # ---------------------------------------------------------------- C06
    ("c06a", "C06", A, "                        if message_pairing[1].time + possible_correction > possible_next_pairing[0].time:",
     "                        if message_pairing[1].time + possible_correction >= possible_next_pairing[0].time:",
     "qnl: a value that ends exactly at the next note is rejected"),
    ("c06b", "C06", A, "                    if possible_correction > 0 and do_not_extend and note_value in valid_durations:",
     "                    if possible_correction > 0 and False and note_value in valid_durations:", "qnl: do_not_extend ignored"),
    ("c06c", "C06", A, "                    best_fit = valid_durations[find_minimal_distance(current_duration, valid_durations)]",
     "                    best_fit = note_values[find_minimal_distance(current_duration, note_values)]",
     "qnl: best fit chosen among all values instead of the fitting ones"),
    # ---------------------------------------------------------------- C07
    ("c07x", "C07", R, """        for position in sorted(open_positions.values(), reverse=True):
            del messages_normalized[position]""", """        for position in sorted(open_positions.values(), reverse=True):
            messages_normalized.remove(messages_normalized[position])""",
     "normalise: unclosed note-ons removed by object look-up again (first occurrence of a shared Message object; the state before fix d9ca67b)"),
    ("c07y", "C07", R, """        for position in sorted(open_positions.values(), reverse=True):""", """        for position in sorted(open_positions.values()):""",
     "normalise: unclosed positions deleted front to back (later positions shift: wrong messages deleted when >= 2 notes stay open)"),
    ("c07z", "C07", R, """                    open_positions[(msg.channel, msg.note)] = len(messages_normalized)""",
     """                    open_positions[msg.note] = len(messages_normalized)""",
     "normalise: positions of open note-ons keyed by pitch only (same pitch left open on two channels: only one is removed; closing one forgets the other)"),
    ("c10y", "C10", R, """        for position in sorted(open_positions.values(), reverse=True):""", """        for position in sorted(open_positions.values()):""",
     "normalise (used by Bar): unclosed positions deleted front to back, a wait or signature is deleted instead (over-long input accepted / IndexError)"),
    ("c07a", "C07", R, """                    # Skip message if note is already open
                    if len(note_list) != 1:""", """                    # Skip message if note is already open
                    if len(note_list) > 2:""", "normalise: the first re-trigger of a sounding note is kept"),
    ("c07b", "C07", R, """        if wait_buffer > 0:
            messages_normalized.append(
                Message(message_type=MessageType.WAIT, channel=default_channel, time=wait_buffer))""",
     """        if wait_buffer > 0 and False:
            messages_normalized.append(
                Message(message_type=MessageType.WAIT, channel=default_channel, time=wait_buffer))""", "normalise: trailing rest dropped"),
    ("c07c", "C07", R, "                    if msg.key != current_key:", "                    if msg.key != current_ts_numerator:",
     "normalise: key-signature de-duplication compares against the time-signature state"),
    ("c07d", "C07", R, """        for position in sorted(open_positions.values(), reverse=True):
            del messages_normalized[position]""", """        for position in sorted(open_positions.values(), reverse=True)[:1]:
            del messages_normalized[position]""", "normalise: only the last unclosed note is removed"),
    # ---------------------------------------------------------------- C08
    ("c08x", "C08", R, """                        if msg.message_type in [MessageType.CONTROL_CHANGE, MessageType.PROGRAM_CHANGE])

                    if len(current_sequence._messages) > 0:""",
     """                        if msg.message_type in [MessageType.CONTROL_CHANGE])

                    if len(current_sequence._messages) > 0:""",
     "split: only control changes survive on the final tick, program changes there are dropped again (half of fix 92dca25 undone)"),
    ("c09x", "C09", R, """                    current_sequence._messages.extend(
                        msg for msg in next_sequence_queue
                        if msg.message_type in [MessageType.CONTROL_CHANGE, MessageType.PROGRAM_CHANGE])""",
     """                    next_sequence._messages.extend(
                        msg for msg in next_sequence_queue
                        if msg.message_type in [MessageType.CONTROL_CHANGE, MessageType.PROGRAM_CHANGE])""",
     "split: final-tick control events go to a new zero-length piece instead of the end of the current one (conforms to C08 as stated; in bar splitting it adds an empty bar: C09 coverage)"),
    ("c08a", "C08", R, "                    if msg.time <= remaining_capacity:", "                    if msg.time < remaining_capacity:",
     "split: a wait that exactly fills the capacity is treated as straddling (only adds zero-length re-struck notes / a zero-length piece: sound, events and durations are conserved) — expected NOT detected"),
    ("c08b", "C08", R, """                                Message(message_type=MessageType.NOTE_ON, channel=value.channel, note=value.note,
                                        velocity=value.velocity))""", """                                Message(message_type=MessageType.NOTE_ON, channel=value.channel, note=value.note,
                                        velocity=64))""", "split: re-struck note gets a fixed velocity"),
    ("c08c", "C08", R, """                    current_sequence.add_message(msg)
                    open_messages.pop((msg.channel, msg.note), None)""", """                    current_sequence.add_message(msg)
                    open_messages.pop((msg.channel, msg.note), None) if remaining_capacity > 0 else None""",
     "split: a note ending exactly on a boundary is still re-struck in the next piece"),
    ("c08d", "C08", R, "                        carry_time = msg.time - remaining_capacity", "                        carry_time = msg.time - remaining_capacity if len(open_messages) < 3 else msg.time - remaining_capacity + 1",
     "split: one extra tick when three or more notes sound across a boundary"),
    # ---------------------------------------------------------------- C09
    ("c09a", "C09", S, "            time_signature = next((timing for timing in time_signature_timings if timing[0] <= current_point_in_time)",
     "            time_signature = next((timing for timing in time_signature_timings if timing[0] < current_point_in_time)",
     "bar splitting: a signature takes effect one bar late"),
    ("c09b", "C09", S, "                current_key = key_signature[1].key", "                current_key = key_signature[1].key if len(tracks_bars[0]) > 0 else None",
     "bar splitting: a key signature at the very start is not carried by the first bars"),
    ("c09c", "C09", S, "                    sequence_to_add.quantise_note_lengths(do_not_extend=True)", "                    sequence_to_add.quantise_note_lengths(do_not_extend=False)",
     "bar splitting: re-quantisation may extend notes"),
    ("c09d", "C09", S, """                    if len(split_up) == 0:
                        split_up.append(Sequence())
                    sequences[i] = Sequence()""", """                    if len(split_up) == 0:
                        split_up.append(Sequence())
                    sequences[i] = Sequence()
                    if i > 0 and len(split_up[0].rel._messages) == 0 and len(tracks_bars[i]) > 2:
                        continue""", "bar splitting: an exhausted side track stops receiving placeholder bars after its third bar"),
    # ---------------------------------------------------------------- C10
    ("c10a", "C10", B, "            self.sequence.pad(capacity)", "            self.sequence.pad(self.time_signature_numerator * PPQN)",
     "Bar pads to numerator quarter notes regardless of the denominator"),
    ("c10b", "C10", B, "        if not all(msg.numerator == self.time_signature_numerator", "        if False and not all(msg.numerator == self.time_signature_numerator",
     "Bar: signature uniformity check dropped"),
    ("c10c", "C10", B, "denominator=self.time_signature_denominator), index=0)", "denominator=self.time_signature_denominator), index=1)",
     "Bar: leading signature inserted at index 1"),
    ("c10d", "C10", B, "        if self.sequence.get_sequence_duration_relation() * PPQN > capacity:", "        if self.sequence.get_sequence_duration_relation() * PPQN > capacity + PPQN:",
     "Bar accepts up to one quarter note more than its capacity"),
    # ---------------------------------------------------------------- C11
    ("c11a", "C11", A, "positions_left = [(message_original_time // step_size) * step_size for step_size in step_sizes]",
     "positions_left = [(message_original_time / step_size // 1) * step_size for step_size in step_sizes]", "quantise computes grid positions in floats"),
    ("c11b", "C11", S, "            length_bar = int(PPQN * (current_ts_numerator / (current_ts_denominator / 4)))",
     "            length_bar = PPQN * (current_ts_numerator / (current_ts_denominator / 4))", "bar length left as a float in the splitter"),
    ("c11c", "C11", R, """        if factor > 1:
            for msg in self._messages:
                if msg.message_type == MessageType.WAIT:
                    msg.time = msg.time * factor""", """        if factor > 1:
            for msg in self._messages:
                if msg.message_type == MessageType.WAIT:
                    msg.time = msg.time * float(factor)""", "integer scaling multiplies waits by a float"),
    ("c11d", "C11", A, "                        message_pairing[1].time = message_pairing[0].time + reduced_length", "                        message_pairing[1].time = message_pairing[0].time + reduced_length / 1",
     "cutoff writes a float end time"),
    # ---------------------------------------------------------------- C12
    ("c12a", "C12", MT, """                track.append(mido.MetaMessage("key_signature", key=msg.key.value, time=int(time_buffer)))
                time_buffer = 0""", """                track.append(mido.MetaMessage("key_signature", key=msg.key.value, time=int(time_buffer)))""",
     "writer: delta buffer not reset after a key signature"),
    ("c12b", "C12", F, """        if not any(timing_tuple[0] == 0 for timing_tuple in
                   meta_track.get_message_times_of_type([MessageType.TIME_SIGNATURE])):""", """        if True or not any(timing_tuple[0] == 0 for timing_tuple in
                   meta_track.get_message_times_of_type([MessageType.TIME_SIGNATURE])):""", "loader: default 4/4 inserted even when a signature exists at tick 0"),
    ("c12c", "C12", MT, """                    mido.Message("note_on", note=msg.note, velocity=msg.velocity if msg.velocity is not None else 127,""",
     """                    mido.Message("note_on", note=msg.note, velocity=msg.velocity if msg.velocity is not None and msg.velocity > 1 else 127,""",
     "writer: velocity 1 written as 127"),
    # ---------------------------------------------------------------- C13
    ("c13x", "C13", F, """                    if len(open_messages) == 1 and open_messages[0].time == rounded_point_in_time:""",
     """                    if False and len(open_messages) == 1 and open_messages[0].time == rounded_point_in_time:""",
     "loader: collapsed notes kept again (the state before fix 8e50f06: the next note of that key is swallowed)"),
    ("c13y", "C13", F, """                    open_messages = open_notes.get((msg.channel, msg.note), [])""",
     """                    open_messages = open_notes.get((0, msg.note), [])""",
     "loader: open notes looked up under channel 0 at note-off (collapsed notes on other channels are kept)"),
    ("c13z", "C13", F, """                    open_notes.setdefault((msg.channel, msg.note), []).append(note_on)""",
     """                    open_notes[(msg.channel, msg.note)] = [note_on]""",
     "loader: open-note list reset at every note-on (differs only for nested notes of one key, where the sounding set is the same union either way) — expected NOT detected"),
    ("c13a", "C13", F, "                current_point_in_time += (msg.time * scaling_factor)", "                current_point_in_time += round(msg.time * scaling_factor, 1)",
     "loader rounds every delta to one decimal: drift along long tracks"),
    ("c13b", "C13", F, """                if msg.message_type == MessageType.NOTE_ON and any(i in indices for indices in track_indices):""",
     """                if msg.message_type == MessageType.NOTE_ON and (i in track_indices[0] or len(track_indices) < 3):""",
     "loader: with three or more groups only the first group's note-ons are routed"),
    ("c13c", "C13", MM, """        if mido_message.type == "note_on" and mido_message.velocity > 0:""", """        if mido_message.type == "note_on" and mido_message.velocity >= 0:""",
     "note_on with velocity 0 treated as a note-on"),
    ("c13d", "C13", F, "                    meta_sequence.add_absolute_message(\n                        Message(message_type=MessageType.KEY_SIGNATURE,",
     "                    current_sequence.add_absolute_message(\n                        Message(message_type=MessageType.KEY_SIGNATURE,", "key signatures stay on the sequence of their own track"),
    # ---------------------------------------------------------------- C14
    ("c14a", "C14", R, "                while msg.note > NOTE_UPPER_BOUND:", "                while msg.note >= NOTE_UPPER_BOUND:", "transpose: the top pitch is wrapped down"),
    ("c14b", "C14", R, """                while msg.note > NOTE_UPPER_BOUND:
                    had_to_shift = True""", """                while msg.note > NOTE_UPPER_BOUND:
                    had_to_shift = had_to_shift""", "transpose: wrap at the upper bound not reported"),
    ("c14c", "C14", B, "            self.key_signature = Key.transpose_key(self.key_signature, transpose_by)", "            self.key_signature = self.key_signature",
     "Bar.transpose leaves the bar's key untouched"),
    # ---------------------------------------------------------------- C15
    ("c15a", "C15", A, """            for msg in [msg for msg in sequence._messages]:
                self._add_message_unsorted(msg)""", """            for msg in [msg for msg in sequence._messages if msg.message_type != MessageType.INTERNAL]:
                self._add_message_unsorted(msg)""", "merge ignores the trailing rest of its arguments"),
    ("c15b", "C15", S, """        self.abs.merge([seq.abs for seq in sequences])
        self.invalidate_rel()
        self.normalise()""", """        self.abs.merge([seq.abs for seq in sequences[:3]])
        self.invalidate_rel()
        self.normalise()""", "merge takes at most three arguments into account"),
    ("c15c", "C15", R, """                    if len(note_list) != 0:
                        continue
                    open_positions.pop((msg.channel, msg.note), None)""", """                    if len(note_list) != 0 and wait_buffer == 0:
                        continue
                    open_positions.pop((msg.channel, msg.note), None)""", "normalise (used by merge): an inner note-off closes a fused note when a rest precedes it"),
    # ---------------------------------------------------------------- C16
    ("c16a", "C16", B, "        cpy = self.__class__(self.sequence.copy(),", "        cpy = self.__class__(self.sequence,", "Bar.copy shares the sequence"),
    ("c16b", "C16", S, "    def split(self, capacities: list[int], copy_messages: bool = True) -> list[Sequence]:",
     "    def split(self, capacities: list[int], copy_messages: bool = False) -> list[Sequence]:", "split shares messages by default"),
    ("c16c", "C16", S, "        sequences = [sequence.copy() for sequence in sequences_input]", "        sequences = [sequence for sequence in sequences_input]",
     "bar splitting works on the caller's sequences (bars share messages with the inputs)"),
    ("c16d", "C16", "scoda/elements/track.py", "        cpy = self.__class__([bar.copy() for bar in self.bars], self.name)", "        cpy = self.__class__([bar for bar in self.bars], self.name)",
     "Track.copy shares its bars"),
    # ---------------------------------------------------------------- C17
    ("c17a", "C17", A, "                if self_msg.note != other_msg.note or self_msg_value != other_msg_value:", "                if self_msg.note != other_msg.note:",
     "equals: duration comparison dropped"),
    ("c17b", "C17", A, "                if self_msg.velocity != other_msg.velocity and not ignore_velocity:", "                if self_msg.velocity != other_msg.velocity and not ignore_velocity and not ignore_channel:",
     "equals: the channel flag also relaxes velocity"),
    ("c17c", "C17", A, "            if self_msg.message_type != other_msg.message_type or self_msg.time != other_msg.time:",
     "            if self_msg.message_type != other_msg.message_type or (self_msg.time != other_msg.time and self_msg.message_type == MessageType.NOTE_ON):",
     "equals: signature ticks not compared"),
    # ---------------------------------------------------------------- C18
    ("c18a", "C18", A, "                    if message_pairing[1].time - message_pairing[0].time > maximum_length:", "                    if message_pairing[1].time - message_pairing[0].time >= maximum_length:",
     "cutoff also shortens notes of exactly the maximum length"),
    ("c18b", "C18", R, """                if current_length >= padding_length:
                    break""", """                if current_length >= padding_length - 1:
                    break""", "pad stops measuring one tick early"),
    ("c18c", "C18", R, """        for msg in self._messages:
            msg.channel = channel""", """        for msg in self._messages:
            if msg.message_type != MessageType.PROGRAM_CHANGE:
                msg.channel = channel""", "set_channel skips program changes"),
    ("c18d", "C18", R, """            for msg in self._messages:
                if msg.message_type == MessageType.WAIT:
                    msg.time = msg.time * factor
        # Handle special case""", """            for msg in self._messages[:-1] if factor > 6 else self._messages:
                if msg.message_type == MessageType.WAIT:
                    msg.time = msg.time * factor
        # Handle special case""", "scale: for factors above six the last message (a trailing rest) is not scaled"),
    # ---------------------------------------------------------------- C19
    ("c19a", "C19", T, """            if main_part == TokenisationPrefixes.BAR.value:
                cur_time += cur_bar_capacity_remaining""", """            if main_part == TokenisationPrefixes.BAR.value:
                cur_time += cur_bar_capacity_total""", "get_info: bar token advances by the whole bar instead of the remaining capacity"),
    ("c19b", "C19", T, """                cur_time += int(token_parts[0][1])
                cur_time_bar += int(token_parts[0][1])
                cur_bar_capacity_remaining -= int(token_parts[0][1])""", """                cur_time += int(token_parts[0][1])
                cur_time_bar += int(token_parts[0][1])""", "get_info: rests do not reduce the remaining capacity"),
    ("c19c", "C19", T, """            elif main_part == TokenisationPrefixes.TIME_SIGNATURE.value:
                if cur_time_bar > 0:
                    LOGGER.info(
                        f"Skipping time signature change mid-bar at time {cur_time} (bar time {cur_time_bar})")
                else:
                    cur_time_signature_numerator = int(token_parts[0][1])""", """            elif main_part == TokenisationPrefixes.TIME_SIGNATURE.value:
                if False:
                    LOGGER.info(
                        f"Skipping time signature change mid-bar at time {cur_time} (bar time {cur_time_bar})")
                else:
                    cur_time_signature_numerator = int(token_parts[0][1])""", "get_info accepts a mid-bar signature token that detokenise skips"),
    # ---------------------------------------------------------------- C20
    ("c20a", "C20", M, "key_transpose_order = [Key.C, Key.C_S, Key.D, Key.E_B, Key.E, Key.F, Key.F_S, Key.G, Key.A_B, Key.A, Key.B_B, Key.B]",
     "key_transpose_order = [Key.C, Key.C_S, Key.D, Key.E_B, Key.E, Key.F, Key.F_S, Key.G, Key.A, Key.A_B, Key.B_B, Key.B]", "two entries of the chromatic key order swapped"),
    ("c20b", "C20", M, "        Key.A_B: ([Note.G_S, Note.A_S, Note.C, Note.C_S, Note.D_S, Note.F, Note.G], 4),", "        Key.A_B: ([Note.G_S, Note.A_S, Note.C, Note.C_S, Note.D_S, Note.F, Note.F_S], 4),",
     "one wrong note in the A-flat scale"),
    ("c20c", "C20", M, "        if distance_left == distance_right:\n            distance = distance_right", "        if distance_left == distance_right:\n            distance = -distance_right",
     "tritone distance reported as -6"),
    ("c20d", "C20", M, "key_transpose_mapping = {Key.D_B: Key.C_S, Key.G_B: Key.F_S, Key.C_B: Key.B}", "key_transpose_mapping = {Key.D_B: Key.C_S, Key.G_B: Key.F_S, Key.C_B: Key.C}",
     "C-flat mapped to C before transposing"),
]

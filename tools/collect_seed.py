#!/venv/bin/python
"""collect_seed.py <worktree> <seed-id> <property> "<what it needs to manifest>" [--also C04,C08]

Takes the uncommitted change + demo.py a sub-agent left in a scratch worktree, re-confirms everything independently
(demo passes on the original and fails with the change; the unedited suite passes with the change), and stores it as
/verif/seeded/<seed-id>/{patch.diff, demo.py, meta.json}.  Nothing is ever applied to /repo."""
import json
import os
import shutil
import subprocess
import sys
import time

ROOT = os.path.dirname(os.path.dirname(os.path.abspath(__file__)))


def sh(cmd, cwd=None, env=None, timeout=3600):
    p = subprocess.run(cmd, cwd=cwd, env=env, capture_output=True, text=True, timeout=timeout, shell=isinstance(cmd, str))
    return p.returncode, (p.stdout + p.stderr)


def main():
    wt, sid, prop, needs = sys.argv[1:5]
    also = []
    if "--also" in sys.argv:
        also = sys.argv[sys.argv.index("--also") + 1].split(",")
    out = os.path.join(ROOT, "seeded", sid)
    os.makedirs(out, exist_ok=True)
    rc, diff = sh(["git", "-C", wt, "diff", "--", "scoda"])
    assert diff.strip(), "no change in worktree"
    open(os.path.join(out, "patch.diff"), "w").write(diff)
    shutil.copy(os.path.join(wt, "demo.py"), os.path.join(out, "demo.py"))
    env = dict(os.environ, PYTHONPATH=wt, PYTHONDONTWRITEBYTECODE="1")
    ran = []
    # demo with the change
    rc_changed, o1 = sh(["/venv/bin/python", "demo.py"], cwd=wt, env=env)
    ran.append(f"demo with change: exit {rc_changed}")
    # demo on the original: an export of HEAD's scoda/ into a temporary directory (git stash is shared between worktrees
    # and must not be used when several collections run in parallel)
    import tempfile
    tmp = tempfile.mkdtemp(prefix="seed_orig_", dir="/tmp")
    try:
        sh(f"git -C {wt} archive HEAD scoda | tar -x -C {tmp}")
        shutil.copy(os.path.join(wt, "demo.py"), os.path.join(tmp, "demo.py"))
        rc_orig, o0 = sh(["/venv/bin/python", "demo.py"], cwd=tmp, env=dict(os.environ, PYTHONPATH=tmp, PYTHONDONTWRITEBYTECODE="1"))
    finally:
        shutil.rmtree(tmp, ignore_errors=True)
    ran.append(f"demo on original: exit {rc_orig}")
    # the unedited suite with the change (serially, from the worktree root)
    t0 = time.time()
    rc_suite, os_ = sh(["/venv/bin/python", "-m", "pytest", "-q", "-p", "no:cacheprovider", "--timeout=900", "-o", "log_cli=false"],
                       cwd=wt, env=env)
    tail = [l for l in os_.strip().splitlines() if l.strip()][-1] if os_.strip() else ""
    ran.append(f"suite with change: exit {rc_suite}: {tail[-80:]} ({time.time() - t0:.0f}s)")
    rc_t, tests_changed = sh(["git", "-C", wt, "status", "--short", "test"])
    meta = {"id": sid, "property": prop, "also_run": also, "needs_to_manifest": needs,
            "confirmed": {"demo_exit_original": rc_orig, "demo_exit_changed": rc_changed, "suite_passes_with_change": rc_suite == 0,
                          "suite_summary": tail[-80:], "tests_untouched": not tests_changed.strip()},
            "what_i_ran": ran, "demo_output_with_change_tail": o1.strip()[-400:]}
    keep = rc_orig == 0 and rc_changed != 0 and rc_suite == 0 and not tests_changed.strip()
    meta["kept"] = keep
    json.dump(meta, open(os.path.join(out, "meta.json"), "w"), indent=1)
    print(json.dumps(meta, indent=1))
    if not keep:
        print("NOT CONFIRMED — directory left for inspection:", out)
        sys.exit(1)


if __name__ == "__main__":
    main()

#!/bin/sh
# usage: tools/runall.sh [quick|thorough] [seed]   — runs every registered check, prints one verdict line per property
TIER="${1:-quick}"; SEED="${2:-0}"
cd "$(dirname "$0")/.."
rc=0
for p in C01 C02 C03 C04 C05 C06 C07 C08 C09 C10 C11 C12 C13 C14 C15 C16 C17 C18 C19 C20; do
  out=$(VERIF_SEED=$SEED ./run $p --tier $TIER 2>&1); e=$?
  echo "$p exit=$e $(echo "$out" | grep -E "^\[$p\] tier|INCONCLUSIVE|VIOLATION" | head -3 | tr '\n' ' ' | cut -c1-330)"
  [ $e -ne 0 ] && rc=1
done
exit $rc

#!/usr/bin/env python3
"""Regenerates MANIFEST.json from the check modules present in vmon/checks (keeps it valid at all times)."""
import importlib
import json
import os
import sys

ROOT = os.path.dirname(os.path.dirname(os.path.abspath(__file__)))
sys.path.insert(0, ROOT)

PROPS = [json.loads(l) for l in open(os.path.join(ROOT, "properties.jsonl")) if l.strip()]
BASELINE = ("cd /repo && env -u SCODA_VERIF /venv/bin/python -m pytest -ra -q -p no:cacheprovider --timeout=900 "
            "--continue-on-collection-errors")

checks = []
na = []
for p in PROPS:
    pid = p["id"]
    path = os.path.join(ROOT, "vmon", "checks", pid.lower() + ".py")
    if not os.path.exists(path):
        na.append({"property_id": pid, "reason": "check under construction in this session (see DESIGN.md section 5)"})
        continue
    src = open(path).read()
    meta = {}
    # the modules import scoda lazily, so importing them for metadata is safe without activation
    mod = importlib.import_module(f"vmon.checks.{pid.lower()}")
    checks.append({
        "property_id": pid,
        "quick_cmd": f"./run {pid} --tier quick",
        "thorough_cmd": f"./run {pid} --tier thorough",
        "evidence_file": f"/verif/evidence/{pid}.json",
        "replay_cmd_template": f"./run {pid} --replay {{path}}",
        "engine": "vmon",
        "level_claimed": {
            "category": getattr(mod, "LEVEL", "exploration"),
            "text": getattr(mod, "LEVEL_TEXT", "") or (
                "Runtime monitoring: the real code is executed on seeded hostile workloads (plus corpus-derived and, in the "
                "thorough tier, the repository's own test suite in situ) while record-only contracts/invariants attached to "
                "the real functions and independent differential observers judge every execution. Held means: no monitor "
                "fired on the executions produced; it is not a proof."),
            "design_ref": f"DESIGN.md section 5, {pid}",
        },
        "level_note": getattr(mod, "LEVEL_NOTE", "") or (
            "Trusted base: CPython, icontract's call interception, the observers in vmon/oracle.py, the monitors in "
            "vmon/monitors.py and the reference model; decides only the executions produced (counts in the evidence)."),
        "technique": getattr(mod, "TECHNIQUE", "runtime monitoring: contracts on the real functions + differential oracle over seeded workloads"),
    })

manifest = {
    "version": 1,
    "setup_cmd": "/venv/bin/pip install --quiet --no-index --find-links /opt/veriftools/wheels --target /verif/.deps icontract",
    "hooks": {
        "guard": "SCODA_VERIF",
        "enable": "no source hooks: SCODA_VERIF=1 is read by the harness only (./run sets it); the monitors are attached to "
                  "the classes of /repo's working tree at run time from /verif/vmon/monitors.py, nothing is built",
        "baseline_off_cmd": BASELINE,
        "source_commits": [],
        "add_only": True,
    },
    "engines": [{"name": "vmon", "path": "/verif/vmon", "serves_properties": [c["property_id"] for c in checks],
                 "kind_free_text": "runtime monitors (icontract contracts/invariants, type sanitizer, reference-model history "
                                   "checker, differential observers) driven by seeded, corpus-derived and in-situ workloads"}],
    "checks": checks,
    "notes": "Exit codes: 0 held, 1 violation (VIOLATION line + replay file), 2 inconclusive. Known findings: /verif/known_findings.json. "
             "Compiler sanitizers, race detectors and linearizability checkers have no target in this single-threaded pure-Python library (DESIGN.md section 1).",
    "not_applicable": na,
}
with open(os.path.join(ROOT, "MANIFEST.json"), "w") as f:
    json.dump(manifest, f, indent=1)
print(f"{len(checks)} checks, {len(na)} not yet claimed")

#!/venv/bin/python
"""rebase_seed.py <seed-id> [...]

Re-applies a kept seeded change to /repo's current HEAD after a `fix:` commit touched the same lines: three-way merge of the
stored patch (`git apply --3way`, using the blobs named in the patch) in a throw-away worktree under /tmp, then the same
confirmation as collect_seed.py (demo exits 0 on the original and non-zero with the change, unedited suite passes with the
change).  On success patch.diff is replaced and meta.json gets a `rebased` entry; on a conflict or a failed confirmation
nothing is changed and the reason is printed (the seed then has to be rebased by hand or marked superseded)."""
import json
import os
import shutil
import subprocess
import sys
import tempfile

ROOT = os.path.dirname(os.path.dirname(os.path.abspath(__file__)))
THEIRS = "--theirs" in sys.argv


def sh(cmd, cwd=None, env=None, timeout=3600):
    p = subprocess.run(cmd, cwd=cwd, env=env, capture_output=True, text=True, timeout=timeout, shell=isinstance(cmd, str))
    return p.returncode, p.stdout + p.stderr


def rebase(sid):
    d = os.path.join(ROOT, "seeded", sid)
    meta = json.load(open(os.path.join(d, "meta.json")))
    head = sh(["git", "-C", "/repo", "rev-parse", "--short", "HEAD"])[1].strip()
    wt = tempfile.mkdtemp(prefix="rebase_", dir="/tmp")
    os.rmdir(wt)
    try:
        rc, out = sh(["git", "-C", "/repo", "worktree", "add", "--detach", wt, "HEAD"])
        if rc:
            return f"worktree: {out[-200:]}"
        rc, out = sh(["git", "-C", wt, "apply", "--3way", os.path.join(d, "patch.diff")])
        resolved = ""
        if rc:
            if not THEIRS:
                return f"conflict: {out[-400:]}"
            # --theirs: inside every conflict block keep the seeded change's side (the code of the later fix inside that block is
            # replaced by what the seed's author wrote there; everything outside the blocks is the current tree)
            n = 0
            for f in [l.split()[-1] for l in out.splitlines() if l.startswith("U ")]:
                path = os.path.join(wt, f)
                keep, state = [], None
                for line in open(path).read().split("\n"):
                    if line.startswith("<<<<<<< "):
                        state = "ours"
                        n += 1
                    elif line.startswith("=======") and state == "ours":
                        state = "theirs"
                    elif line.startswith(">>>>>>> ") and state == "theirs":
                        state = None
                    elif state != "ours":
                        keep.append(line)
                open(path, "w").write("\n".join(keep))
            resolved = f"; {n} conflict block(s) resolved in favour of the seeded change"
        sh(["git", "-C", wt, "reset", "-q"])     # --3way stages the result
        rc, diff = sh(["git", "-C", wt, "diff", "--", "scoda"])
        if not diff.strip():
            return "empty diff after merge"
        shutil.copy(os.path.join(d, "demo.py"), os.path.join(wt, "demo.py"))
        env = dict(os.environ, PYTHONPATH=wt, PYTHONDONTWRITEBYTECODE="1")
        rc_changed, _ = sh(["/venv/bin/python", "demo.py"], cwd=wt, env=env)
        tmp = tempfile.mkdtemp(prefix="rebase_orig_", dir="/tmp")
        try:
            sh(f"git -C {wt} archive HEAD scoda | tar -x -C {tmp}")
            shutil.copy(os.path.join(d, "demo.py"), os.path.join(tmp, "demo.py"))
            rc_orig, _ = sh(["/venv/bin/python", "demo.py"], cwd=tmp, env=dict(os.environ, PYTHONPATH=tmp, PYTHONDONTWRITEBYTECODE="1"))
        finally:
            shutil.rmtree(tmp, ignore_errors=True)
        rc_suite, os_ = sh(["/venv/bin/python", "-m", "pytest", "-q", "-p", "no:cacheprovider", "--timeout=900", "-o", "log_cli=false"],
                           cwd=wt, env=env)
        tail = [l for l in os_.strip().splitlines() if l.strip()][-1] if os_.strip() else ""
        if not (rc_orig == 0 and rc_changed != 0 and rc_suite == 0):
            return f"not confirmed: demo on original {rc_orig}, with change {rc_changed}, suite {rc_suite} ({tail[-60:]})"
        open(os.path.join(d, "patch.diff"), "w").write(diff)
        meta.setdefault("rebase_history", []).append(meta.get("rebased")) if meta.get("rebased") else None
        meta["rebased"] = {"onto": head, "why": f"a later fix: commit touched the same lines; three-way merge of the stored patch "
                           f"(tools/rebase_seed.py{resolved}), demo exits {rc_changed} with the change and 0 without, unedited suite: {tail[-40:]}"}
        json.dump(meta, open(os.path.join(d, "meta.json"), "w"), indent=1)
        return "rebased"
    finally:
        sh(["git", "-C", "/repo", "worktree", "remove", "--force", wt])
        sh(["git", "-C", "/repo", "worktree", "prune"])
        shutil.rmtree(wt, ignore_errors=True)


if __name__ == "__main__":
    for sid in [a for a in sys.argv[1:] if not a.startswith("--")]:
        print(sid, "->", rebase(sid), flush=True)

#!/venv/bin/python
"""runs every quick check for several seeds and reports, per floor, the smallest observed value / floor ratio"""
import json, os, subprocess, sys
ROOT = os.path.dirname(os.path.dirname(os.path.abspath(__file__)))
seeds = [int(x) for x in (sys.argv[1] if len(sys.argv) > 1 else "0,1,2,3,4,5").split(",")]
props = [f"C{i:02d}" for i in range(1, 21)]
worst = {}
bad = []
for s in seeds:
    for p in props:
        r = subprocess.run([os.path.join(ROOT, "run"), p], env=dict(os.environ, VERIF_SEED=str(s)), capture_output=True, text=True)
        if r.returncode != 0:
            bad.append((s, p, r.returncode, r.stdout[-300:]))
        ev = json.load(open(os.path.join(ROOT, "evidence", p + ".json")))["coverage"]
        cnt = ev["monitor_counters"]
        for k, lo in ev["floors"].items():
            if k.startswith("#"):
                got = sum(1 for c in cnt if c.startswith(k[1:]))
            elif k == "distinct_nontrivial":
                got = ev["distinct_nontrivial"]
            else:
                got = cnt.get(k, 0)
            key = (p, k)
            if key not in worst or got / lo < worst[key][0]:
                worst[key] = (got / lo, got, lo, s)
for (p, k), (ratio, got, lo, s) in sorted(worst.items(), key=lambda x: x[1][0]):
    if ratio < 1.6:
        print(f"{p} {k}: min {got} vs floor {lo} (x{ratio:.2f}) at seed {s}")
print("non-zero exits:", bad)

#!/venv/bin/python
"""runs the in-situ phase (repository test suite under one property's monitors) for every property that defines one"""
import json, os, sys, tempfile, time, shutil
ROOT = os.path.dirname(os.path.dirname(os.path.abspath(__file__)))
sys.path.insert(0, ROOT)
from vmon import env
env.activate()
from vmon import insitu, worker
props = sys.argv[1:] or [f"C{i:02d}" for i in range(1, 21)]
for p in props:
    mod = worker.load_check(p)
    if not getattr(mod, "INSITU", None):
        print(p, "no in-situ phase", flush=True)
        continue
    w = tempfile.mkdtemp(prefix="insitu_all_")
    t = time.time()
    r = insitu.run(mod, w)
    shutil.rmtree(w, ignore_errors=True)
    print(p, f"{time.time()-t:.0f}s", {k: v for k, v in r.items() if k not in ("counters", "violations", "known")},
          "known:", {k: v["count"] for k, v in r["known"].items()}, flush=True)
    for v in r["violations"][:3]:
        print("   VIOL", v["index"], [(f["claim"], str(f.get("witness"))[:300]) for f in v["fails"][:2]], flush=True)

"""Locates the tree under test, installs the offline dependency, seeds, shards.

Nothing here imports scoda at module import time: `activate()` must run first so that
`import scoda` resolves to the working tree named by VERIF_REPO (default /repo).
"""
import fcntl
import hashlib
import logging
import os
import subprocess
import sys

VERIF_ROOT = os.path.dirname(os.path.dirname(os.path.abspath(__file__)))
REPO = os.path.abspath(os.environ.get("VERIF_REPO", "/repo"))
DEPS = os.path.join(VERIF_ROOT, ".deps")
WHEELS = "/opt/veriftools/wheels"
PY = "/venv/bin/python"
GUARD = "SCODA_VERIF"


def ensure_deps():
    """pip-install icontract into /verif/.deps from the offline wheelhouse (idempotent, locked)."""
    marker = os.path.join(DEPS, "icontract", "__init__.py")
    if os.path.exists(marker):
        return
    os.makedirs(DEPS, exist_ok=True)
    lock = open(os.path.join(DEPS, ".lock"), "w")
    fcntl.flock(lock, fcntl.LOCK_EX)
    try:
        if not os.path.exists(marker):
            subprocess.run(
                ["/venv/bin/pip", "install", "--quiet", "--no-index", "--find-links", WHEELS,
                 "--target", DEPS, "icontract"],
                check=True, stdout=subprocess.DEVNULL, stderr=subprocess.PIPE, timeout=300)
    finally:
        fcntl.flock(lock, fcntl.LOCK_UN)
        lock.close()


def activate():
    """Make `import scoda` resolve to REPO and `import icontract` to .deps; silence library logging."""
    ensure_deps()
    for p in (DEPS, VERIF_ROOT, REPO):
        if p in sys.path:
            sys.path.remove(p)
    sys.path[0:0] = [REPO, VERIF_ROOT, DEPS]
    logging.disable(logging.CRITICAL)
    import scoda.sequences.sequence as _s
    got = os.path.abspath(_s.__file__)
    if not got.startswith(REPO + os.sep):
        raise RuntimeError(f"scoda resolved to {got}, expected under {REPO}")
    logging.disable(logging.CRITICAL)
    return REPO


def child_env():
    env = dict(os.environ)
    env["PYTHONPATH"] = os.pathsep.join([REPO, VERIF_ROOT, DEPS])
    env["PYTHONDONTWRITEBYTECODE"] = "1"
    env.setdefault("PYTHONHASHSEED", "0")
    env[GUARD] = "1"
    env["MPLBACKEND"] = "Agg"
    env["VERIF_REPO"] = REPO
    return env


def tree_hash():
    """SHA-256 over scoda/**/*.py of the tree under test (recorded in the evidence)."""
    h = hashlib.sha256()
    root = os.path.join(REPO, "scoda")
    for d, dirs, files in sorted(os.walk(root)):
        dirs.sort()
        for f in sorted(files):
            if f.endswith(".py") or f.endswith(".json"):
                p = os.path.join(d, f)
                h.update(os.path.relpath(p, root).encode())
                with open(p, "rb") as fh:
                    h.update(fh.read())
    return h.hexdigest()


def seed():
    try:
        return int(os.environ.get("VERIF_SEED", "0"))
    except ValueError:
        return 0


def ncpu():
    try:
        return len(os.sched_getaffinity(0))
    except Exception:
        return os.cpu_count() or 1

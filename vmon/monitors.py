"""Runtime monitors: icontract contracts and class invariants attached from the harness to the real
scoda classes, plus a type sanitizer on Message.time.  They RECORD and never raise (each condition
returns True) so that one defect cannot mask the next and observation does not change behaviour;
verdicts are computed offline over the log by the check drivers.

Every record carries the property id it speaks for, the monitor and claim name, and a compact witness.
`armed` = the claim's precondition held and the claim was evaluated; `vacuous` = reached but the
precondition was false."""
import collections
import functools
import os
import sys
from fractions import Fraction

import icontract

from vmon import oracle as orc
from vmon.oracle import (NOTE_ON, NOTE_OFF, TS, KS, NOTE_TYPES, mtype, fields, view_abs, view_rel, events,
                         automaton, offs_first, sounding, peek)

MAXV = 400


class MonitorBug(Exception):
    pass


class _Log:
    def __init__(self):
        self.cnt = collections.Counter()
        self.viol = []
        self.mark = 0
        self.dropped = 0

    def rec(self, prop, mon, claim, ok, witness=None):
        k = f"{mon}.{claim}"
        self.cnt[k + ".armed"] += 1
        if not ok:
            self.cnt[k + ".viol"] += 1
            if len(self.viol) < MAXV:
                self.viol.append({"property": prop, "monitor": mon, "claim": claim,
                                  "witness": _short(witness), "w": _jsonable(witness), "at": _caller()})
            else:
                self.dropped += 1
        return True

    def vac(self, mon, claim):
        self.cnt[f"{mon}.{claim}.vacuous"] += 1

    def n(self, key, k=1):
        self.cnt[key] += k

    def begin(self):
        self.mark = len(self.viol)

    def end(self):
        out = self.viol[self.mark:]
        del self.viol[self.mark:]
        return out


LOG = _Log()
INSTALLED = set()
_PKG = os.path.dirname(os.path.abspath(__file__))


def _jsonable(w, depth=0):
    """size-limited JSON-able rendering of a witness (used by the known-finding classifiers)"""
    if w is None or isinstance(w, (bool, int, float, str)):
        return w
    if isinstance(w, Fraction):
        return str(w)
    if depth > 5:
        return repr(w)[:80]
    if isinstance(w, dict):
        return {str(k): _jsonable(v, depth + 1) for k, v in list(w.items())[:24]}
    if isinstance(w, (list, tuple, set, frozenset)):
        return [_jsonable(v, depth + 1) for v in list(w)[:24]]
    v = getattr(w, "value", None)
    if isinstance(v, (str, int)):
        return v
    return repr(w)[:80]


def _short(w, n=600):
    try:
        s = repr(w)
    except Exception:
        s = "<unrepr>"
    return s if len(s) <= n else s[:n] + "..."


def _caller():
    f = sys._getframe(2)
    while f is not None:
        fn = f.f_code.co_filename
        if "icontract" not in fn and not fn.startswith(_PKG):
            return f"{os.path.basename(fn)}:{f.f_lineno}"
        f = f.f_back
    return "?"


def _guard(fn):
    """a bug in a monitor must not look like a library defect nor change library behaviour"""
    @functools.wraps(fn)
    def wrapped(*a, **k):
        try:
            return fn(*a, **k)
        except Exception as e:  # pragma: no cover
            LOG.cnt[f"monitor_bug.{fn.__name__}"] += 1
            if len(LOG.viol) < MAXV:
                LOG.viol.append({"property": "MONITOR", "monitor": fn.__name__, "claim": "monitor_bug",
                                 "witness": f"{type(e).__name__}: {e}", "at": _caller()})
            return True
    return wrapped


def _contract(cls, name, snap, post, static=False):
    """attach snapshot+ensure to cls.name (class attribute, so every call site is monitored)"""
    raw = cls.__dict__[name]
    func = raw.__func__ if isinstance(raw, staticmethod) else raw
    wrapped = icontract.ensure(post, error=MonitorBug)(func)
    if snap is not None:
        wrapped = icontract.snapshot(snap, name="pre")(wrapped)
    if isinstance(raw, staticmethod) or static:
        wrapped = staticmethod(wrapped)
    setattr(cls, name, wrapped)


def _timed_of(seq):
    pk = peek(seq)
    if pk is None:
        return None
    kind, timed, dur = pk
    order = orc.abs_order(timed) if kind != "rel" else timed
    if kind == "abs" and getattr(seq, "_rel_stale", True) is False and getattr(seq, "_rel", None) is not None:
        # both views fresh: the relative list keeps its own equal-tick order (e.g. after set_channel merged two channels an
        # on may precede the off of the same key at one tick there while the regenerated absolute list is sorted); an input
        # that is ill-formed in either stored order is not a well-formed input
        rt, _ = view_rel(seq._rel)
        if any(p[0] != "nonpositive" for p in automaton(rt)[0]):
            order = rt
    return kind, timed, order, dur


# ============================================================================================== install

def install(names=None):
    """names: iterable of monitor groups; None = all.  Idempotent per group."""
    from scoda.sequences.sequence import Sequence
    from scoda.sequences.absolute_sequence import AbsoluteSequence
    from scoda.sequences.relative_sequence import RelativeSequence
    from scoda.elements.message import Message
    from scoda.elements.bar import Bar
    from scoda.misc.music_theory import Key, CircleOfFifths, MusicMapping
    from scoda.misc.util import get_default_step_sizes, get_default_note_values
    from scoda.tokenisation.notelike_tokenisation import MultiTrackLargeVocabularyNotelikeTokeniser as Tok
    from scoda.settings.settings import PPQN, NOTE_LOWER_BOUND, NOTE_UPPER_BOUND
    import scoda.settings.settings as _settings

    ALL = ["conv", "normalise", "split", "quantise", "qnl", "bars", "transpose", "merge", "equals", "c18",
           "tokenise", "theory", "bar_inv", "seq_inv", "time_type"]
    if names is None:
        names = ALL
    todo = [n for n in ALL if n in set(names) and n not in INSTALLED]
    rec, vac = LOG.rec, LOG.vac

    # ------------------------------------------------------------------ C04: conversions
    if "conv" in todo:
        def snap_to_rel(self):
            timed, dur = view_abs(self)
            ordered = all(x.time <= y.time for x, y in zip(self._messages, self._messages[1:]))
            return events(timed), dur, ordered

        @_guard
        def post_to_rel(self, result, OLD):
            ev, dur, ordered = OLD.pre
            if not ordered:
                vac("to_rel", "events")
                return True
            timed, d = view_rel(result)
            rec("C04", "to_rel", "events", events(timed) == ev, (ev[:4], events(timed)[:4]))
            rec("C04", "to_rel", "duration", d == dur, (d, dur))
            return True
        _contract(AbsoluteSequence, "to_relative_sequence", snap_to_rel, post_to_rel)

        def snap_to_abs(self):
            timed, dur = view_rel(self)
            return events(timed), dur

        @_guard
        def post_to_abs(self, result, OLD):
            ev, dur = OLD.pre
            timed, d = view_abs(result)
            rec("C04", "to_abs", "events", events(timed) == ev, (ev[:4], events(timed)[:4]))
            rec("C04", "to_abs", "duration", d == dur, (d, dur))
            return True
        _contract(RelativeSequence, "to_absolute_sequence", snap_to_abs, post_to_abs)

    # ------------------------------------------------------------------ C07: normalise
    if "normalise" in todo:
        def snap_norm(self):
            timed, d = view_rel(self)
            snd, paired = sounding(timed)
            return d, snd, paired

        @_guard
        def post_norm(self, OLD):
            d0, snd0, paired = OLD.pre
            timed, d = view_rel(self)
            pr, _ = automaton(timed)
            pr = [p for p in pr if p[0] != "nonpositive"]
            rec("C07", "normalise", "alternation", not pr, pr[:3])
            rec("C07", "normalise", "duration", d == d0, (d, d0))
            cur_ts = None
            cur_k = None
            rep = None
            for t, m in timed:
                ty = mtype(m)
                if ty == TS:
                    if (m.numerator, m.denominator) == cur_ts:
                        rep = ("ts", t, cur_ts)
                    cur_ts = (m.numerator, m.denominator)
                elif ty == KS:
                    if cur_k is not None and orc.keyval(m.key) == cur_k:
                        rep = ("ks", t, cur_k)
                    cur_k = orc.keyval(m.key)
            rec("C07", "normalise", "no_repeated_signature", rep is None, rep)
            if paired:
                snd, _ = sounding(timed)
                rec("C07", "normalise", "sound_if_paired", snd == snd0, _dictdiff(snd0, snd))
            else:
                vac("normalise", "sound_if_paired")
            return True
        _contract(RelativeSequence, "normalise_relative", snap_norm, post_norm)

    # ------------------------------------------------------------------ C08: split
    if "split" in todo:
        def snap_split(self):
            timed, d = view_rel(self)
            pr, notes = automaton(timed)
            non = orc.nonnote_events(timed)
            return d, not pr, orc.velocity_runs(notes), non, events(timed), sounding(timed)[0]

        @_guard
        def post_split(self, capacities, result, OLD):
            d0, wf, runs0, non0, ev0, snd0 = OLD.pre
            if hasattr(capacities, "verif_values"):
                caps = list(capacities.verif_values)     # a one-shot iterator built by the driver: it says what it was going to yield
            elif iter(capacities) is capacities:
                vac("split", "all")                      # someone else's one-shot iterator: consumed by now, nothing to compare with
                return True
            else:
                caps = [int(c) for c in capacities]
            if not wf or not all(type(c) is int and c > 0 for c in caps):
                vac("split", "all")
                return True
            rec("C08", "split", "count", len(result) <= len(caps) + 1, (len(result), len(caps)))
            off = 0
            allruns = collections.defaultdict(list)
            non = []
            capok = True
            openend = None
            snds = []
            for i, p in enumerate(result):
                timed, d = view_rel(p)
                pr, notes = automaton(timed)
                if any(x[0] == "unclosed" for x in pr):
                    openend = (i, [x for x in pr if x[0] == "unclosed"][:2])
                for k, l in orc.velocity_runs(notes, off).items():
                    allruns[k] += [list(x) for x in l]
                snds.append(orc.shift_intervals(sounding(timed)[0], off))
                non += [(e[0] + off,) + e[1:] for e in orc.nonnote_events(timed)]
                if i < len(result) - 1 and (i >= len(caps) or d != caps[i]):
                    capok = False
                off += d
            rec("C08", "split", "capacity", capok, (caps[:6], [view_rel(p)[1] for p in result][:6]))
            rec("C08", "split", "duration_sum", off == d0, (off, d0))
            rec("C08", "split", "closed_at_boundary", openend is None, openend)
            snd = orc.union_intervals(snds)
            rec("C08", "split", "sound", snd == snd0, _dictdiff(snd0, snd))
            runs = orc.merge_runs(allruns)
            if snd == snd0:
                rec("C08", "split", "restrike_velocity", runs == runs0, _dictdiff(runs0, runs))
            non.sort()
            missing = _msdiff(non0, non)
            extra = _msdiff(non, non0)
            psum = set()
            acc = 0
            for c in caps:
                acc += c
                psum.add(acc)
            rec("C08", "split", "events", not missing and not extra,
                {"duration": d0, "caps": caps[:8], "missing": missing[:4], "extra": extra[:4],
                 "final_tick_is_boundary": d0 in psum, "n_missing": len(missing),
                 "n_missing_on_final_tick": sum(1 for m in missing if m[0] == d0),
                 "n_missing_signatures_on_final_tick": sum(1 for m in missing if m[0] == d0 and m[1] in (orc.TS, orc.KS))})
            timed, d = view_rel(self)
            rec("C08", "split", "source_unchanged", events(timed) == ev0 and d == d0, None)
            ids = set(id(m) for m in self._messages)
            if any(id(m) in ids for p in result for m in p._messages):
                LOG.n("split.shares_messages")
            else:
                LOG.n("split.no_shared_messages")
            return True
        _contract(RelativeSequence, "split", snap_split, post_split)

    # ------------------------------------------------------------------ C05: quantise
    if "quantise" in todo:
        def snap_q(self):
            timed, d = view_abs(self)
            pr, notes = automaton(orc.abs_order(timed))
            pre = {id(m): (m.time,) + fields(m) for m in self._messages}
            return (not pr, pre, [(c, p, on, of, v) for (c, p, on, of, v, a, b) in notes],
                    sorted(fields(m) for t, m in timed if mtype(m) not in NOTE_TYPES),
                    orc.nonnote_events(timed))

        @_guard
        def post_q(self, step_sizes, OLD):
            wf, pre, notes0, nonf0, non0 = OLD.pre
            steps = list(step_sizes) if step_sizes is not None else orc.default_step_sizes(_settings)
            if not wf or not steps or not all(type(s) is int and s > 0 for s in steps):
                vac("quantise", "all")
                return True
            mx = max(steps)
            timed, d = view_abs(self)
            off = [(t, fields(m)[:3]) for t, m in timed if not any(t % s == 0 for s in steps)]
            rec("C05", "quantise", "grid", not off, (steps, off[:3]))
            moved = [(pre[id(m)][0], t, fields(m)[:3]) for t, m in timed
                     if id(m) in pre and abs(t - pre[id(m)][0]) > mx]
            known = sum(1 for t, m in timed if id(m) in pre)
            if known:
                rec("C05", "quantise", "displacement", not moved, (steps, moved[:3]))
            else:
                vac("quantise", "displacement")
            # non-note events: all kept (multiset of fields), each within max step (order-preserving match)
            nonf = sorted(fields(m) for t, m in timed if mtype(m) not in NOTE_TYPES)
            rec("C05", "quantise", "nonnotes_kept", nonf == nonf0, (_msdiff(nonf0, nonf)[:3], _msdiff(nonf, nonf0)[:3]))
            if nonf == nonf0:
                byf0 = collections.defaultdict(list)
                byf1 = collections.defaultdict(list)
                for e in non0:
                    byf0[e[1:]].append(e[0])
                for e in orc.nonnote_events(timed):
                    byf1[e[1:]].append(e[0])
                bad = [(f, a, b) for f in byf0 for a, b in zip(sorted(byf0[f]), sorted(byf1[f])) if abs(a - b) > mx]
                rec("C05", "quantise", "nonnote_displacement", not bad, bad[:3])
            pr, notes = automaton(orc.abs_order(timed))
            rec("C05", "quantise", "pairing", not pr, (steps, pr[:3]))
            # every resulting note is the image of an original note of the same channel/pitch/velocity
            by0 = collections.defaultdict(list)
            for n in notes0:
                by0[(n[0], n[1])].append(n)
            orph = []
            for (c, p, on, of, v, _, _) in notes:
                if not any(o[4] == v and abs(o[2] - on) <= mx and abs(o[3] - of) <= mx for o in by0.get((c, p), [])):
                    orph.append((c, p, on, of, v))
            rec("C05", "quantise", "image_of_original", not orph, (steps, orph[:3]))
            # survival of isolated notes
            by1 = collections.defaultdict(list)
            for n in notes:
                by1[(n[0], n[1])].append(n)
            for k, l in by0.items():
                for n in l:
                    iso = all(o is n or (o[2] - n[3] >= 2 * mx or n[2] - o[3] >= 2 * mx) for o in l)
                    if not iso:
                        continue
                    on, of = n[2], n[3]
                    cands = [(on // s) * s for s in steps] + [(on // s) * s + s for s in steps]
                    best = min(abs(c - on) for c in cands)
                    starts = [c for c in cands if abs(c - on) == best]
                    ocands = [(of // s) * s for s in steps] + [(of // s) * s + s for s in steps]
                    must = all(any(oc > st for oc in ocands) for st in starts)
                    if must:
                        ok = any(g[4] == n[4] and abs(g[2] - on) <= mx for g in by1.get(k, []))
                        rec("C05", "quantise", "survival", ok, (k, on, of, n[4], steps))
                    else:
                        LOG.n("quantise.survival.may_drop")
            return True
        _contract(AbsoluteSequence, "quantise", snap_q, post_q)

    # ------------------------------------------------------------------ C06: quantise_note_lengths
    if "qnl" in todo:
        def snap_qnl(self):
            timed, d = view_abs(self)
            pr, notes = automaton(orc.abs_order(timed))
            return not pr, [(c, p, on, of, v) for (c, p, on, of, v, a, b) in notes], orc.nonnote_events(timed)

        @_guard
        def post_qnl(self, note_values, do_not_extend, OLD):
            wf, notes0, non0 = OLD.pre
            nv = list(note_values) if note_values is not None else orc.default_note_values(_settings)
            if not wf or not nv or not all(type(x) is int and x > 0 for x in nv):
                vac("qnl", "all")
                return True
            timed, d = view_abs(self)
            pr, notes = automaton(orc.abs_order(timed))
            rec("C06", "qnl", "pairing", not pr, pr[:3])
            non = orc.nonnote_events(timed)
            rec("C06", "qnl", "nonnotes_untouched", non == non0, (_msdiff(non0, non)[:3], _msdiff(non, non0)[:3]))
            got = {}
            dup = False
            for (c, p, on, of, v, _, _) in notes:
                if (c, p, on) in got:
                    dup = True
                got[(c, p, on)] = (of, v)
            pre_keys = set((n[0], n[1], n[2]) for n in notes0)
            newn = [k for k in got if k not in pre_keys]
            rec("C06", "qnl", "no_new_or_moved_notes", not newn and not dup, newn[:3])
            bykey = collections.defaultdict(list)
            for n in notes0:
                bykey[(n[0], n[1])].append(n)
            for k, l in bykey.items():
                l.sort(key=lambda n: n[2])
                for i, n in enumerate(l):
                    nxt = l[i + 1][2] if i + 1 < len(l) else None
                    ln = n[3] - n[2]
                    fit = [x for x in nv if (nxt is None or n[2] + x <= nxt) and (not do_not_extend or x <= ln)]
                    g = got.get((n[0], n[1], n[2]))
                    w = {"key": k, "on": n[2], "len": ln, "next": nxt, "values": nv[:8], "dne": bool(do_not_extend)}
                    if g is None:
                        rec("C06", "qnl", "removed_only_if_nothing_fits", not fit, w)
                    else:
                        dd = g[0] - n[2]
                        w["got"] = dd
                        rec("C06", "qnl", "velocity_kept", g[1] == n[4], w)
                        rec("C06", "qnl", "allowed_value", dd in nv, w)
                        rec("C06", "qnl", "no_overlap", nxt is None or g[0] <= nxt, w)
                        if do_not_extend:
                            rec("C06", "qnl", "not_extended", dd <= ln, w)
                        rec("C06", "qnl", "closest_fit", bool(fit) and abs(dd - ln) == min(abs(x - ln) for x in fit), w)
            return True
        _contract(AbsoluteSequence, "quantise_note_lengths", snap_qnl, post_qnl)

    # ------------------------------------------------------------------ C09: sequences_split_bars
    if "bars" in todo:
        def snap_bars(sequences_input):
            out = []
            for s in sequences_input:
                tv = _timed_of(s)
                if tv is None:
                    out.append(None)
                    continue
                kind, timed, order, dur = tv
                pr, notes = automaton(order)
                out.append({"events": events(timed), "dur": dur, "wf": not pr, "snd": sounding(order)[0],
                            "notes": [(c, p, on, of) for (c, p, on, of, v, _, _) in notes],
                            "ts": orc.sig_changes(timed, TS), "ks": orc.sig_changes(timed, KS)})
            return out

        @_guard
        def post_bars(sequences_input, meta_track_index, quantise_note_lengths, result, OLD):
            pre = OLD.pre
            if any(p is None for p in pre) or not pre or not all(p["wf"] for p in pre):
                vac("bars", "all")
                return True
            D = max(p["dur"] for p in pre)
            meta = pre[meta_track_index]
            if any(p["ts"] for i, p in enumerate(pre) if i != meta_track_index):
                vac("bars", "all")
                return True
            try:
                grid = orc.bar_grid(meta["ts"], D, PPQN)
            except ValueError:
                vac("bars", "all")
                return True
            # extend the grid to the number of bars returned (for signature/key look-ups)
            nb = max((len(t) for t in result), default=0)
            starts = set(g[0] for g in grid)
            gridx = orc.bar_grid(meta["ts"], D, PPQN, at_least=max(nb, len(grid)))
            startsx = set(g[0] for g in gridx) | {gridx[-1][0] + gridx[-1][1]}
            ts_ticks = [t for t, _ in meta["ts"]]
            ks_ticks = [t for t, _ in meta["ks"]]
            aligned = (all(t in startsx for t in ts_ticks + ks_ticks)
                       and len(set(ts_ticks)) == len(ts_ticks) and len(set(ks_ticks)) == len(ks_ticks))
            if not aligned:
                vac("bars", "all")
                return True
            counts = [len(t) for t in result]
            rec("C09", "bars", "equal_bar_counts", len(set(counts)) <= 1 and len(result) == len(pre), counts)
            # coverage
            total = sum(g[1] for g in gridx[:nb])
            if D == 0:
                LOG.n("bars.all_empty_input")
                rec("C09", "bars", "coverage_empty", nb == 1, nb)
            else:
                last = gridx[nb - 1][1] if nb else 0
                rec("C09", "bars", "coverage", nb > 0 and total >= D and total - D < last, (nb, total, D))
            keyfn = orc.step_fn(meta["ks"], "", 10 ** 9)
            allowed = set(orc.default_note_values(_settings))
            for ti, trk in enumerate(result):
                off = 0
                snds = []
                bad_len = bad_sig = bad_key = None
                for k, b in enumerate(trk):
                    if k >= len(gridx):
                        break
                    st, L, sig = gridx[k]
                    tv = _timed_of(b.sequence)
                    if tv is None:
                        bad_len = (k, "unreadable")
                        continue
                    kind, timed, order, dur = tv
                    if dur != L:
                        bad_len = (ti, k, dur, L)
                    if (b.time_signature_numerator, b.time_signature_denominator) != sig:
                        bad_sig = (ti, k, (b.time_signature_numerator, b.time_signature_denominator), sig)
                    kin = ""
                    for t, v in keyfn:
                        if t <= st:
                            kin = v
                    if orc.keyval(b.key_signature) != kin:
                        bad_key = (ti, k, orc.keyval(b.key_signature), kin)
                    snds.append(orc.shift_intervals(sounding(order)[0], off))
                    off += L
                rec("C09", "bars", "bar_length", bad_len is None, bad_len)
                rec("C09", "bars", "bar_signature", bad_sig is None, bad_sig)
                rec("C09", "bars", "bar_key", bad_key is None, bad_key)
                snd = orc.union_intervals(snds)
                if ti < len(pre):
                    src = pre[ti]["snd"]
                    if not quantise_note_lengths:
                        rec("C09", "bars", "sound_exact", snd == src, _dictdiff(src, snd))
                    else:
                        rec("C09", "bars", "sound_subset", orc.subset_intervals(snd, src), _dictdiff(src, snd))
                        notes0 = pre[ti]["notes"]
                        if all((of - on) in allowed for (c, p, on, of) in notes0):
                            bounds = [g[0] for g in gridx[:nb]] + [total]
                            bad = []
                            for (c, p, on, of) in notes0:
                                uncut = any(bounds[j] <= on and of <= bounds[j + 1] for j in range(len(bounds) - 1))
                                if uncut and not any(a <= on and of <= b for a, b in snd.get((c, p), [])):
                                    bad.append((c, p, on, of))
                            rec("C09", "bars", "only_cut_fragments_shrink", not bad, bad[:3])
                        else:
                            vac("bars", "only_cut_fragments_shrink")
            post = snap_bars(sequences_input)
            same = all(q is not None and q["events"] == p["events"] and q["dur"] == p["dur"] for p, q in zip(pre, post))
            rec("C09", "bars", "inputs_unchanged", same, None)
            return True
        _contract(Sequence, "sequences_split_bars", snap_bars, post_bars)

    # ------------------------------------------------------------------ C14 / C20: transposition
    if "transpose" in todo:
        TONIC = {"C": 0, "G": 7, "D": 2, "A": 9, "E": 4, "B": 11, "F#": 6, "C#": 1, "F": 5, "Bb": 10, "Eb": 3,
                 "Ab": 8, "Db": 1, "Gb": 6, "Cb": 11}

        def key_ok(old, new, k):
            if old is None:
                return True
            if not isinstance(new, Key):
                return False
            return TONIC[new.value] == (TONIC[orc.keyval(old)] + k) % 12

        def snap_tr(self):
            tv = _timed_of(self)
            if tv is None:
                return None
            kind, timed, order, dur = tv
            pr, notes = automaton(order)
            return {"wf": not pr, "notes": sorted((c, p, on, of, v) for (c, p, on, of, v, _, _) in notes),
                    "keys": [(t, m.key) for t, m in timed if mtype(m) == KS], "dur": dur,
                    "non": [e for e in orc.nonnote_events(timed) if e[1] != KS]}

        @_guard
        def post_tr(self, transpose_by, result, OLD):
            pre = OLD.pre
            k = transpose_by
            if pre is None or not pre["wf"] or type(k) is not int:
                vac("transpose", "all")
                return True
            tv = _timed_of(self)
            if tv is None:
                rec("C14", "transpose", "readable", False, None)
                return True
            kind, timed, order, dur = tv
            pr, notes = automaton(order)
            got = sorted((c, p, on, of, v) for (c, p, on, of, v, _, _) in notes)
            outr = [n for n in got if not (NOTE_LOWER_BOUND <= n[1] <= NOTE_UPPER_BOUND)]
            rec("C14", "transpose", "in_range", not outr, (k, outr[:3]))
            need = any(not (NOTE_LOWER_BOUND <= n[1] + k <= NOTE_UPPER_BOUND) for n in pre["notes"])
            rec("C14", "transpose", "return_value", bool(result) == need and type(result) is bool, (k, result, need))
            src = collections.defaultdict(set)
            for (c, p, on, of, v) in pre["notes"]:
                src[(c, on)].add((p + k) % 12)
            noimg = [n for n in got if (n[1] % 12) not in src.get((n[0], n[2]), ())]
            rec("C14", "transpose", "image_pitch_class", not noimg, (k, noimg[:3]))
            if not need:
                exp = sorted((c, p + k, on, of, v) for (c, p, on, of, v) in pre["notes"])
                rec("C14", "transpose", "exact_shift", got == exp and not pr, (k, _msdiff(exp, got)[:3], _msdiff(got, exp)[:3]))
                rec("C14", "transpose", "duration_kept", dur == pre["dur"], (dur, pre["dur"]))
            keys = [(t, m.key) for t, m in timed if mtype(m) == KS]
            if pre["keys"] and not all(isinstance(x, Key) for t, x in pre["keys"]):
                vac("transpose", "key_events")
            elif pre["keys"]:
                # compare the key in force at every tick (normalise may legitimately drop a repeated signature);
                # a key that became undefined (None / not a Key) never matches
                exp_fn = orc.step_fn([(t, (TONIC[orc.keyval(x)] + k) % 12) for t, x in pre["keys"]], "none", 10 ** 9)
                got_fn = orc.step_fn([(t, TONIC[x.value] if isinstance(x, Key) else "undefined") for t, x in keys], "none", 10 ** 9)
                rec("C14", "transpose", "key_events", exp_fn == got_fn,
                    (k, [(t, orc.keyval(x)) for t, x in pre["keys"]][:3],
                     [(t, x.value if isinstance(x, Key) else None) for t, x in keys][:3]))
            if not need:
                non = [e for e in orc.nonnote_events(timed) if e[1] != KS]
                rec("C14", "transpose", "other_events_kept", non == pre["non"], None)
            return True
        _contract(Sequence, "transpose", snap_tr, post_tr)

        def snap_bar_tr(self):
            return self.key_signature

        @_guard
        def post_bar_tr(self, transpose_by, OLD):
            if type(transpose_by) is not int:
                return True
            if OLD.pre is None:
                rec("C14", "bar_transpose", "key_stays_none", self.key_signature is None, None)
            else:
                rec("C14", "bar_transpose", "bar_key", key_ok(OLD.pre, self.key_signature, transpose_by),
                    (orc.keyval(OLD.pre), transpose_by, orc.keyval(self.key_signature) if self.key_signature is not None else None))
            return True
        _contract(Bar, "transpose", snap_bar_tr, post_bar_tr)

        @_guard
        def post_tk(key, transpose_by, result):
            import numbers
            if not isinstance(key, Key) or not isinstance(transpose_by, numbers.Integral):
                vac("transpose_key", "all")
                return True
            if type(transpose_by) is not int:
                LOG.n("transpose_key.integer_of_another_type." + type(transpose_by).__name__)
            transpose_by = int(transpose_by)     # "any integer": bool, IntEnum members and numpy integers are integers too
            rec("C20", "transpose_key", "returns_key", isinstance(result, Key), (key.value, transpose_by, result))
            if isinstance(result, Key):
                rec("C20", "transpose_key", "tonic_shift", TONIC[result.value] == (TONIC[key.value] + transpose_by) % 12,
                    (key.value, transpose_by, result.value))
                s0 = MusicMapping.KeyNoteMapping[key][0]
                s1 = MusicMapping.KeyNoteMapping[result][0]
                rec("C20", "transpose_key", "scale_shift",
                    set(n.value for n in s1) == set((n.value + transpose_by) % 12 for n in s0),
                    (key.value, transpose_by, result.value))
            return True
        _contract(Key, "transpose_key", None, post_tk)

    # ------------------------------------------------------------------ C20: circle of fifths
    if "theory" in todo:
        @_guard
        def post_pos(note_val, result):
            rec("C20", "cof", "position", result == orc.cof(note_val) and -5 <= result <= 6, (note_val, result))
            return True
        _contract(CircleOfFifths, "get_position", None, post_pos)

        @_guard
        def post_dist(from_note_val, to_note_val, result):
            rec("C20", "cof", "distance_range", -5 <= result <= 6 and type(result) is int, (from_note_val, to_note_val, result))
            rec("C20", "cof", "distance_mod", (result - (orc.cof(to_note_val) - orc.cof(from_note_val))) % 12 == 0,
                (from_note_val, to_note_val, result))
            return True
        _contract(CircleOfFifths, "get_distance", None, post_dist)

        @_guard
        def post_from(base_note_val, cof_distance, result):
            exp = None
            for pc in range(12):
                if (orc.cof(pc) - orc.cof(base_note_val) - cof_distance) % 12 == 0:
                    exp = pc
            rec("C20", "cof", "from_distance", result == exp, (base_note_val, cof_distance, result, exp))
            return True
        _contract(CircleOfFifths, "from_distance", None, post_from)

    # ------------------------------------------------------------------ C15: merge
    if "merge" in todo:
        def _msnap(s):
            tv = _timed_of(s)
            if tv is None:
                return None
            kind, timed, order, dur = tv
            pr, notes = automaton(order)
            return {"wf": not pr, "snd": sounding(order)[0], "dur": dur,
                    "notes": [(c, p, on, of - on, v) for (c, p, on, of, v, _, _) in notes],
                    "ts": orc.sig_changes(timed, TS), "ks": orc.sig_changes(timed, KS)}

        def snap_merge(self, sequences):
            if iter(sequences) is sequences:
                # a one-shot iterator / generator: looking at it would consume it before the real call does; the driver compares
                # such calls with the list form of the same call (which this contract judges)
                return [None]
            return [_msnap(self)] + [_msnap(s) for s in sequences]

        def _expected_sigs(lists):
            allv = sorted((t, v) for l in lists for (t, v) in l)
            byt = collections.defaultdict(set)
            for t, v in allv:
                byt[t].add(v)
            if any(len(s) > 1 for s in byt.values()):
                return None
            out = []
            for t, v in allv:
                if not out or out[-1][1] != v:
                    out.append((t, v))
            return out

        @_guard
        def post_merge(self, sequences, OLD):
            pre = OLD.pre
            if any(p is None or not p["wf"] for p in pre):
                vac("merge", "all")
                return True
            tv = _timed_of(self)
            if tv is None:
                rec("C15", "merge", "readable", False, None)
                return True
            kind, timed, order, dur = tv
            pr, notes = automaton(order)
            snd = sounding(order)[0]
            exp = orc.union_intervals([p["snd"] for p in pre])
            rec("C15", "merge", "sound_union", snd == exp, _dictdiff(exp, snd))
            got = sorted((c, p, on, of - on) for (c, p, on, of, v, _, _) in notes)
            expn = orc.fused_notes([p["notes"] for p in pre])
            rec("C15", "merge", "fused_notes", got == expn and not pr, (_msdiff(expn, got)[:3], _msdiff(got, expn)[:3], pr[:2]))
            rec("C15", "merge", "duration_max", dur == max(p["dur"] for p in pre), (dur, [p["dur"] for p in pre]))
            for kind_, nm in ((TS, "ts"), (KS, "ks")):
                e = _expected_sigs([p[nm] for p in pre])
                if e is None:
                    vac("merge", "signatures_" + nm)
                    # two different signatures of one kind share a tick: which of them ends up in force is a matter of the
                    # canonical order, but each of them "does not repeat the one in force" unless it equals the value that was in
                    # force before that tick — so at most that one value may be missing there
                    g = orc.sig_changes(timed, kind_)
                    byt = collections.defaultdict(set)
                    for p_ in pre:
                        for (t, v) in p_[nm]:
                            byt[t].add(v)
                    bad = None
                    for t, vals in sorted(byt.items()):
                        if len(vals) < 2:
                            continue
                        have = set(v for (tt, v) in g if tt == t)
                        before = [v for (tt, v) in g if tt < t]
                        missing = vals - have
                        if missing and not (len(missing) == 1 and before and next(iter(missing)) == before[-1]):
                            bad = (t, sorted(map(str, vals)), sorted(map(str, have)), str(before[-1]) if before else None)
                            break
                    rec("C15", "merge", "signatures_same_tick_kept_" + nm, bad is None, bad)
                else:
                    g = orc.sig_changes(timed, kind_)
                    rec("C15", "merge", "signatures_" + nm, g == e, (e[:4], g[:4]))
            return True
        _contract(Sequence, "merge", snap_merge, post_merge)

    # ------------------------------------------------------------------ C17: equals
    if "equals" in todo:
        def _esnap(a):
            timed, dur = view_abs(a)
            pr, notes = automaton(orc.abs_order(timed))
            ns = sorted((c, p, on, of - on, v) for (c, p, on, of, v, _, _) in notes)
            ts = sorted((t, m.channel, m.numerator, m.denominator) for t, m in timed if mtype(m) == TS)
            ks = sorted((t, m.channel, orc.keyval(m.key)) for t, m in timed if mtype(m) == KS)
            chans = set(n[0] for n in ns) | set(x[1] for x in ts) | set(x[1] for x in ks)
            return not pr, ns, ts, ks, chans

        def oracle_equal(A, B, ic, its, iks, iv):
            _, na, tsa, ksa, _ = A
            _, nb, tsb, ksb, _ = B

            def nn(ns):
                return sorted((None if ic else c, p, on, d, None if iv else v) for (c, p, on, d, v) in ns)

            def ss(xs):
                return sorted((x[0], None if ic else x[1]) + tuple(x[2:]) for x in xs)
            if nn(na) != nn(nb):
                return False
            if not its and ss(tsa) != ss(tsb):
                return False
            if not iks and ss(ksa) != ss(ksb):
                return False
            return True

        @_guard
        def post_eq(self, other, ignore_channel, ignore_time_signature, ignore_key_signature, ignore_velocity, result):
            if not isinstance(other, AbsoluteSequence):
                rec("C17", "equals", "non_sequence_is_unequal", result is False, type(other).__name__)
                return True
            A = _esnap(self)
            B = _esnap(other)
            if not A[0] or not B[0]:
                vac("equals", "verdict")
                return True
            if ignore_channel and (len(A[4]) > 1 or len(B[4]) > 1):
                vac("equals", "verdict")
                return True
            exp = oracle_equal(A, B, ignore_channel, ignore_time_signature, ignore_key_signature, ignore_velocity)
            rec("C17", "equals", "verdict", bool(result) == exp and type(result) is bool,
                {"lib": result, "oracle": exp, "flags": (ignore_channel, ignore_time_signature, ignore_key_signature, ignore_velocity),
                 "a": (A[1][:4], A[2][:2], A[3][:2]), "b": (B[1][:4], B[2][:2], B[3][:2])})
            return True
        _contract(AbsoluteSequence, "equals", None, post_eq)

    # ------------------------------------------------------------------ C18: pad / cutoff / scale / set_channel
    if "c18" in todo:
        def _csnap(s):
            tv = _timed_of(s)
            if tv is None:
                return None
            kind, timed, order, dur = tv
            pr, notes = automaton(order)
            return {"wf": not pr, "ev": events(timed), "dur": dur,
                    "notes": sorted((c, p, on, of, v) for (c, p, on, of, v, _, _) in notes),
                    "non": orc.nonnote_events(timed), "non_nc": orc.nonnote_events(timed, drop_channel=True)}

        def snap_self(self):
            return _csnap(self)

        @_guard
        def post_pad(self, padding_length, OLD):
            pre = OLD.pre
            if pre is None or type(padding_length) is not int or padding_length < 0:
                vac("pad", "all")
                return True
            cur = _csnap(self)
            if cur is None:
                rec("C18", "pad", "readable", False, None)
                return True
            rec("C18", "pad", "events_untouched", cur["ev"] == pre["ev"], None)
            rec("C18", "pad", "duration", cur["dur"] == max(pre["dur"], padding_length), (pre["dur"], padding_length, cur["dur"]))
            return True
        _contract(Sequence, "pad", snap_self, post_pad)

        @_guard
        def post_cutoff(self, maximum_length, reduced_length, OLD):
            pre = OLD.pre
            m, r = maximum_length, reduced_length
            if pre is None or not pre["wf"] or type(m) is not int or type(r) is not int or not (1 <= r <= m):
                vac("cutoff", "all")
                return True
            cur = _csnap(self)
            if cur is None:
                rec("C18", "cutoff", "readable", False, None)
                return True
            exp = sorted((c, p, on, (on + r if of - on > m else of), v) for (c, p, on, of, v) in pre["notes"])
            rec("C18", "cutoff", "notes", cur["notes"] == exp and cur["wf"], (m, r, _msdiff(exp, cur["notes"])[:3], _msdiff(cur["notes"], exp)[:3]))
            rec("C18", "cutoff", "nonnotes", cur["non"] == pre["non"], None)
            return True
        _contract(Sequence, "cutoff", snap_self, post_cutoff)

        grid_ok = lambda t: t % 4 == 0 or t % 6 == 0  # noqa: E731  default quantiser grid (all default steps are multiples of 4 or 6)

        @_guard
        def post_scale(self, factor, meta_sequence, quantise_afterwards, OLD):
            pre = OLD.pre
            k = factor
            if pre is None or type(k) is not int or k < 1:
                vac("scale", "all")
                return True
            if quantise_afterwards:
                nv = set(orc.default_note_values(_settings))
                conform = (pre["wf"] and all(grid_ok(on * k) and grid_ok(of * k) and (of - on) * k in nv
                                             for (c, p, on, of, v) in pre["notes"])
                           and all(grid_ok(e[0] * k) for e in pre["non"]) and grid_ok(pre["dur"] * k))
                if not conform:
                    vac("scale", "all")
                    return True
            cur = _csnap(self)
            if cur is None:
                rec("C18", "scale", "readable", False, None)
                return True
            if pre["wf"]:
                exp = sorted((c, p, on * k, of * k, v) for (c, p, on, of, v) in pre["notes"])
                rec("C18", "scale", "notes", cur["notes"] == exp, (k, quantise_afterwards, _msdiff(exp, cur["notes"])[:3]))
            expnon = sorted((e[0] * k,) + e[1:] for e in pre["non"])
            if quantise_afterwards:
                # normalise may drop a repeated signature: compare without signatures
                f = lambda l: [e for e in l if e[1] not in (TS, KS)]  # noqa: E731
                rec("C18", "scale", "nonnotes", f(cur["non"]) == f(expnon), (k, _msdiff(f(expnon), f(cur["non"]))[:3]))
            else:
                rec("C18", "scale", "nonnotes", cur["non"] == expnon, (k, _msdiff(expnon, cur["non"])[:3]))
            rec("C18", "scale", "duration", cur["dur"] == pre["dur"] * k, (k, pre["dur"], cur["dur"]))
            return True
        _contract(Sequence, "scale", snap_self, post_scale)

        @_guard
        def post_chan(self, channel, OLD):
            pre = OLD.pre
            if pre is None or type(channel) is not int:
                vac("set_channel", "all")
                return True
            bad = []
            for nm in ("_abs", "_rel"):
                stale = getattr(self, nm + "_stale", True)
                v = getattr(self, nm, None)
                if not stale and v is not None:
                    bad += [fields(m)[:3] for m in v._messages if m.channel != channel and mtype(m) != "internal"]
            rec("C18", "set_channel", "all_channels", not bad, (channel, bad[:3]))
            cur = _csnap(self)
            if cur is None:
                rec("C18", "set_channel", "readable", False, None)
                return True
            strip = lambda evs: sorted((e[0], e[1]) + e[3:] for e in evs)  # noqa: E731
            rec("C18", "set_channel", "rest_unchanged", strip(cur["ev"]) == strip(pre["ev"]) and cur["dur"] == pre["dur"], None)
            return True
        _contract(Sequence, "set_channel", snap_self, post_chan)

    # ------------------------------------------------------------------ C02 / C11: tokenise closure
    if "tokenise" in todo:
        @_guard
        def post_tok(self, result):
            LOG.n("tokenise.calls")
            LOG.n("tokenise.tokens", len(result))
            d = self.dictionary
            notin = [t for t in result if t not in d]
            rec("C02", "tokenise", "closure", not notin, notin[:4])
            # tick-bearing token parts: rest lengths and note values
            dotted = [t for t in result
                      if any(part[:4] in ("val_", "rst_") and not part[4:].isdigit() for part in t.split("-"))]
            rec("C11", "tokenise", "integer_tokens", not dotted, dotted[:4])
            return True
        _contract(Tok, "tokenise", None, post_tok)

    # ------------------------------------------------------------------ C10: Bar invariant
    if "bar_inv" in todo:
        @_guard
        def bar_inv(self):
            s = getattr(self, "sequence", None)
            if s is None or not hasattr(self, "time_signature_numerator"):
                return True
            pk = peek(s)
            if pk is None:
                LOG.n("bar_inv.unreadable")
                return True
            kind, timed, d = pk
            num, den = self.time_signature_numerator, self.time_signature_denominator
            cap = Fraction(PPQN * 4 * num, den)
            rec("C10", "bar_inv", "duration", d == cap, (num, den, d, str(cap)))
            ts = [(t, m.numerator, m.denominator) for t, m in timed if mtype(m) == TS]
            rec("C10", "bar_inv", "single_leading_signature", ts == [(0, num, den)], (num, den, ts[:3]))
            return True
        icontract.invariant(bar_inv, error=MonitorBug)(Bar)

    # ------------------------------------------------------------------ C04 / C11: Sequence invariant
    if "seq_inv" in todo:
        @_guard
        def seq_inv(self):
            LOG.n("seq_inv.eval")
            a_st = getattr(self, "_abs_stale", True)
            r_st = getattr(self, "_rel_stale", True)
            if CHECK_TYPES[0]:
                for nm, st in (("_abs", a_st), ("_rel", r_st)):
                    v = getattr(self, nm, None)
                    if not st and v is not None:
                        bad = [(fields(m)[0], m.time) for m in v._messages if m.time is not None and type(m.time) is not int]
                        rec("C11", "seq_inv", "int_ticks", not bad, (nm, bad[:3]))
            if a_st or r_st:
                return True
            ta, da = view_abs(self._abs)
            tr, dr = view_rel(self._rel)
            ea, er = events(ta), events(tr)
            rec("C04", "seq_inv", "views_events", ea == er,
                {"self_id": id(self), "abs_only": _msdiff(ea, er)[:3], "rel_only": _msdiff(er, ea)[:3]})
            rec("C04", "seq_inv", "views_duration", da == dr, {"self_id": id(self), "dur": (da, dr)})
            return True
        # invalidate_abs / invalidate_rel ARE the repair step of a mutation (the message generators call them when they are
        # resumed after the caller edited a yielded message): the invariant must not be evaluated at their entry, where
        # the deliberately transient state "edited, not yet invalidated" is still in place
        keep = {n: Sequence.__dict__[n] for n in ("invalidate_abs", "invalidate_rel")}
        icontract.invariant(seq_inv, error=MonitorBug)(Sequence)
        for n, f in keep.items():
            setattr(Sequence, n, f)

    # ------------------------------------------------------------------ C11: Message.time type sanitizer
    if "time_type" in todo:
        CHECK_TYPES[0] = True
        msg_file = os.path.abspath(sys.modules[Message.__module__].__file__)

        def _setattr(self, name, value):
            if name == "time" and value is not None and type(value) is not int:
                f = sys._getframe(1)
                while f is not None and os.path.abspath(f.f_code.co_filename) == msg_file:
                    f = f.f_back
                where = f"{os.path.basename(f.f_code.co_filename)}:{f.f_lineno}" if f is not None else "?"
                LOG.cnt["time_type.nonint@" + where] += 1
                LOG.rec("C11", "time_type", "int_assignment", False, (type(value).__name__, value, where))
            else:
                if name == "time":
                    LOG.cnt["time_type.int_assignments"] += 1
            object.__setattr__(self, name, value)
        Message.__setattr__ = _setattr

    INSTALLED.update(todo)
    return sorted(INSTALLED)


CHECK_TYPES = [False]


def _msdiff(a, b):
    """multiset difference a - b for lists of hashables"""
    c = collections.Counter(b)
    out = []
    for x in a:
        if c[x] > 0:
            c[x] -= 1
        else:
            out.append(x)
    return out


def _dictdiff(a, b):
    ks = [k for k in set(a) | set(b) if a.get(k) != b.get(k)]
    ks.sort(key=repr)
    return [(k, a.get(k), b.get(k)) for k in ks[:3]]

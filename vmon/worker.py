"""One shard of a check: generates cases, executes them against the tree under test with the
property's monitors installed, drains the monitor log per case, attributes failures to known findings
(by mechanism) and writes a JSON report."""
import importlib
import json
import os
import sys
import time
import traceback
import zlib

from vmon import env


def load_check(prop):
    mod = importlib.import_module(f"vmon.checks.{prop.lower()}")
    if getattr(mod, "CANONICAL_ABS", False):
        from vmon import oracle
        oracle.CANONICAL_ABS = True     # this check's functions sort canonically before they look at an absolute list
    return mod


class Ctx:
    def __init__(self, prop, tier, seed, shard, nshards):
        self.prop, self.tier, self.seed, self.shard, self.nshards = prop, tier, seed, shard, nshards
        self.scratch = os.getcwd()


def _exc_fail(e):
    tb = traceback.extract_tb(e.__traceback__)
    where = [f"{os.path.basename(fr.filename)}:{fr.lineno}" for fr in tb[-5:]]
    return {"source": "driver", "claim": f"exception.{type(e).__name__}",
            "witness": f"{type(e).__name__}: {str(e)[:200]} @ {' < '.join(reversed(where))}",
            "w": {"type": type(e).__name__, "msg": str(e)[:300], "where": where}}


def _mine(mod, v):
    return v["property"] == mod.PROP or v["property"] == "MONITOR" or v["property"] in getattr(mod, "ALSO", ())


def execute(mod, case, ctx, LOG):
    """run one case; returns (result dict, failing claims, cross-property observations)"""
    LOG.begin()
    fails = []
    res = {"nontrivial": False, "shape": None}
    try:
        out = mod.run(case, ctx)
        if out:
            res.update(out)
        for f in res.pop("fails", []) or []:
            fails.append({"source": "driver", "claim": f.get("claim"), "witness": f.get("witness"), "w": f.get("w")})
    except Exception as e:  # an exception the check does not expect is itself a finding
        fails.append(_exc_fail(e))
    viol = LOG.end()
    cross = []
    for v in viol:
        if _mine(mod, v):
            fails.append({"source": "monitor", "claim": f"{v['monitor']}.{v['claim']}", "witness": v["witness"],
                          "w": v.get("w"), "at": v.get("at")})
        else:
            cross.append(f"{v['property']}:{v['monitor']}.{v['claim']}")
    return res, fails, cross


class Collector:
    def __init__(self, mod, seed):
        from vmon.findings import Attributor
        self.mod = mod
        self.seed = seed
        self.attr = Attributor(mod)
        self.violations = []
        self.nviol = 0
        self.known = {}
        self.cross = {}

    def add(self, index, case, fails):
        if not fails:
            return
        unexplained = []
        for f in fails:
            e = self.attr.attribute(f, case)
            if e is None:
                unexplained.append(f)
            else:
                k = self.known.setdefault(e["id"], {"count": 0, "claims": {}, "example": None})
                k["count"] += 1
                k["claims"][f["claim"]] = k["claims"].get(f["claim"], 0) + 1
                if k["example"] is None:
                    k["example"] = {"index": index, "case": case, "fail": f}
        if unexplained:
            self.nviol += 1
            if len(self.violations) < 40:
                self.violations.append({"index": index, "seed": self.seed, "case": case, "fails": unexplained[:12]})


def main(argv):
    prop, tier, shard, nshards, out = argv[0], argv[1], int(argv[2]), int(argv[3]), argv[4]
    env.activate()
    from vmon import monitors, gen
    mod = load_check(prop)
    monitors.install(mod.MONITORS)
    LOG = monitors.LOG
    seed = env.seed()
    ctx = Ctx(prop, tier, seed, shard, nshards)
    plan = mod.PLAN[tier]
    ncases = int(plan["cases"])
    budget = float(os.environ.get("VERIF_BUDGET_S") or plan.get("budget_s", 1e9))
    t0 = time.time()
    hashes = set()
    shapes = {}
    col = Collector(mod, seed)
    samples = []
    evaluations = 0
    if hasattr(mod, "setup"):
        mod.setup(ctx)
    stopped = None
    for i in range(shard, ncases, nshards):
        if time.time() - t0 > budget:
            stopped = f"time budget {budget}s reached after {evaluations} cases"
            break
        rng = gen.case_rng(seed, prop, 0, i)
        case = mod.make_case(rng, i, tier)
        sck = getattr(mod, "SCALE", None)
        severy = getattr(mod, "SCALE_EVERY", 41)     # a prime: large cases cycle through every sub-family a check selects by i % k
        if sck and i % severy == severy // 2 and isinstance(case, dict) and hasattr(mod, "scale_case"):
            # every fortieth case is a LARGE one (hundreds to thousands of notes, long rests, ticks beyond 2**16, long argument
            # lists): the check itself says how its case is blown up
            mod.scale_case(case, i)
            case["scale"] = True
            LOG.n("large_cases")
        dg = getattr(mod, "DEGEN", None)
        if dg and i % 37 == 18 and isinstance(case, dict) and case.get(dg) is not None and not case.get("scale"):
            # every 37th case (a prime again) is a DEGENERATE one: an empty sequence, rests only, signatures only, a single note,
            # everything on one tick, ... -- legal inputs at the edge of every quantifier; the check may adjust its arguments
            specs = case[dg] if isinstance(case[dg], list) else [case[dg]]
            done = []
            for k, sp in enumerate(specs):
                if isinstance(sp, dict) and "notes" in sp and (k == 0 or (i // 37 + k) % 2 == 0):
                    done.append(gen.degenerate(sp, i + 37 * k))
            if done:
                case["degenerate"] = done
                if hasattr(mod, "degen_case"):
                    mod.degen_case(case, i)
                LOG.n("degenerate_cases")
        rj = getattr(mod, "REJECTED", None)
        revery = getattr(mod, "REJECTED_EVERY", 13)
        if rj and i % revery == 5 and isinstance(case, dict) and isinstance(case.get(rj), list) and not case.get("scale"):
            # every thirteenth case starts with a call that the library rejects (it raises); the legal call under test follows
            from vmon.checks.common import REJECTED_KINDS
            op = {"op": "rejected", "kind": REJECTED_KINDS[(i // revery) % len(REJECTED_KINDS)]}
            if case[rj] and isinstance(case[rj][0], list):
                case[rj][0] = [op] + case[rj][0]
            else:
                case[rj] = [op] + case[rj]
            LOG.n("rejected_call_first_cases")
        dr = getattr(mod, "DRUMS", None)
        if dr and i % 11 == 7 and isinstance(case, dict) and case.get(dr) is not None:
            # every eleventh case is moved onto the drum channel 9 (and 15 / 10 / 8 for further channels): no operation of the
            # twenty properties treats any channel specially
            specs = case[dr] if isinstance(case[dr], list) else [case[dr]]
            cm = gen.relabel_channels([sp for sp in specs if isinstance(sp, dict)], i)
            if cm:
                case["drum_channels"] = {str(k): v for k, v in cm.items()}
                LOG.n("drum_channel_cases")
        ex = getattr(mod, "EXTREMES", None)
        if ex and i % 6 == 5 and isinstance(case, dict) and case.get(ex) is not None:
            # every sixth case is re-labelled to the ends of the legal ranges (channel 15, pitches 0 / 127, velocities 1 / 127)
            specs = case[ex] if isinstance(case[ex], list) else [case[ex]]
            case["extremes"] = gen.extremify(specs, i)
            LOG.n("extreme_value_cases")
        sf = getattr(mod, "SHUFFLE", None)
        tgt = case if isinstance(case, dict) else None
        for part in (sf.split(".") if sf else []):
            tgt = tgt.get(part) if isinstance(tgt, dict) else None
        every = getattr(mod, "SHUFFLE_EVERY", 7)
        if sf and i % every == every // 2 and tgt is not None:
            # every seventh case hands its events to add_absolute_message in a shuffled order (same piece, other insertion order)
            for sp in (tgt if isinstance(tgt, list) else [tgt]):
                if isinstance(sp, dict) and "notes" in sp and not sp.get("hanging"):
                    sp["start"] = "abs_shuffled"
                    sp["shuffle_seed"] = i
            LOG.n("shuffled_insertion_cases")
        tc_ = getattr(mod, "TRACK_CHANNELS", None)
        if tc_ and i % 4 == 1 and isinstance(case, dict):
            # tokeniser inputs: "one single-channel sequence per track" leaves the channel number free (the tokeniser relabels
            # track k to channel k itself); every fourth case moves each track's notes to some other channel, while the
            # signature messages keep the default channel as they do in bars built by the library
            import random
            r3 = random.Random(f"track-channels:{i}")
            tgt = case.get(tc_)
            pieces = [tgt] if isinstance(tgt, dict) else [x for x in (tgt or []) if isinstance(x, dict)]
            for pc in pieces:
                for k, t in enumerate(pc.get("tracks", [])):
                    ch = r3.choice([5, 9, 15, 1, k, (k + 1) % 16, 0])
                    for n in t.get("notes", []):
                        n[0] = ch
            if pieces:
                LOG.n("track_channel_cases")
        swk = getattr(mod, "SPLIT_WAITS", None)
        if swk and i % 5 == 4 and isinstance(case, dict) and case.get(swk) is not None:
            # every fifth case is built from relative messages whose rests are written as several adjacent waits
            for sp in (case[swk] if isinstance(case[swk], list) else [case[swk]]):
                if isinstance(sp, dict) and "notes" in sp and sp.get("start") != "abs_shuffled":
                    sp["start"], sp["split_waits"] = "rel", i
            LOG.n("split_wait_cases")
        rs = getattr(mod, "RESTATE", None)
        if rs and i % 5 == 2 and isinstance(case, dict) and isinstance(case.get(rs), dict):
            done = gen.restate_signatures(case[rs], i)
            if done:
                case["restated_signature"] = done
                LOG.n("restated_signature_cases")
        res, fails, cross = execute(mod, case, ctx, LOG)
        evaluations += 1
        for c in cross:
            col.cross[c] = col.cross.get(c, 0) + 1
        if res.get("nontrivial"):
            hashes.add(gen.chash(case))
        sh = res.get("shape")
        if sh is not None:
            sh = str(sh)
            shapes[sh] = shapes.get(sh, 0) + 1
        if len(samples) < 2 and res.get("nontrivial"):
            samples.append({"index": i, "case": case, "observed": res.get("observed")})
        col.add(i, case, fails)
    extra = {}
    if hasattr(mod, "phases"):
        # deterministic extra phases (exhaustive enumerations, corpus workloads); each runs in one designated shard
        for name, fn in mod.phases(tier):
            if not getattr(fn, "all_shards", False) and (zlib.crc32(name.encode()) % nshards) != shard:
                continue
            LOG.begin()
            tp = time.time()
            try:
                r = fn(ctx) or {}
            except Exception as e:
                f = _exc_fail(e)
                f["case"] = {"phase": name}
                r = {"evaluations": 1, "fails": [f]}
            viol = LOG.end()
            pf = list(r.get("fails", []))
            for v in viol:
                if _mine(mod, v):
                    pf.append({"claim": f"{v['monitor']}.{v['claim']}", "witness": v["witness"], "w": v.get("w"),
                               "case": {"phase": name, "desc": v.get("case_desc")}, "source": "monitor", "at": v.get("at")})
                else:
                    c = f"{v['property']}:{v['monitor']}.{v['claim']}"
                    col.cross[c] = col.cross.get(c, 0) + 1
            evaluations += int(r.get("evaluations", 0))
            for h in r.get("hashes", []):
                hashes.add(h)
            for k, v in (r.get("shapes") or {}).items():
                shapes[k] = shapes.get(k, 0) + v
            for f in pf:
                case = f.pop("case", {"phase": name})
                f.setdefault("source", "driver")
                col.add(f"phase:{name}", case, [f])
            extra[name] = {k: v for k, v in r.items() if k not in ("fails", "hashes", "shapes", "samples")}
            extra[name]["wall_s"] = round(time.time() - tp, 2)
            if r.get("samples") and len(samples) < 4:
                samples.extend(r["samples"][:2])
    if hasattr(mod, "teardown"):
        mod.teardown(ctx)
    rep = {"prop": prop, "tier": tier, "shard": shard, "nshards": nshards, "seed": seed, "evaluations": evaluations,
           "hashes": sorted(hashes), "shapes": shapes, "violations": col.violations, "nviol": col.nviol,
           "known": col.known, "cross": col.cross, "counters": dict(LOG.cnt), "samples": samples,
           "wall_s": round(time.time() - t0, 2), "stopped": stopped, "phases": extra,
           "dropped_violations": LOG.dropped}
    tmp = out + ".tmp"
    with open(tmp, "w") as f:
        json.dump(rep, f, default=str)
    os.replace(tmp, out)


if __name__ == "__main__":
    main(sys.argv[1:])

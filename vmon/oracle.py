"""Independent observers.  None of them calls a scoda helper; they read message fields and the
`_messages` list of a representation only.  Message types are compared through `.value` strings so
the module never needs to import scoda."""
import collections
from fractions import Fraction

NOTE_ON = "note_on"
NOTE_OFF = "note_off"
WAIT = "wait"
INTERNAL = "internal"
TS = "time_signature"
KS = "key_signature"
CC = "control_change"
PC = "program_change"
NOTE_TYPES = (NOTE_ON, NOTE_OFF)


def mtype(m):
    return m.message_type.value


def keyval(k):
    if k is None:
        return ""
    return getattr(k, "value", k)


def _n(x):
    return -1 if x is None else x


def fields(m):
    return (mtype(m), _n(m.channel), _n(m.note), _n(m.velocity), _n(m.numerator), _n(m.denominator),
            keyval(m.key), _n(m.control), _n(m.program))


# ----------------------------------------------------------------------------- views

def view_abs(a):
    """(timed, duration) of an absolute representation; INTERNAL caps only contribute duration."""
    msgs = a._messages
    timed = [(m.time, m) for m in msgs if mtype(m) != INTERNAL]
    dur = 0
    for m in msgs:
        if m.time is not None and m.time > dur:
            dur = m.time
    return timed, dur


def view_rel(r):
    """(timed, duration) of a relative representation; ticks are running sums of waits."""
    t = 0
    timed = []
    for m in r._messages:
        ty = mtype(m)
        if ty == WAIT:
            t += m.time
        elif ty != INTERNAL:
            timed.append((t, m))
    return timed, t


def events(timed):
    """canonical multiset of timed events"""
    return sorted((t,) + fields(m) for t, m in timed)


def nonnote_events(timed, drop_channel=False):
    out = []
    for t, m in timed:
        if mtype(m) in NOTE_TYPES:
            continue
        f = fields(m)
        if drop_channel:
            f = (f[0], -1) + f[2:]
        out.append((t,) + f)
    return sorted(out)


def peek(seq):
    """Non-perturbing read of a Sequence: the fresh stored view, never the regenerating accessors.
    Returns (kind, timed, duration) or None when both views are stale/unknown."""
    rs = getattr(seq, "_rel_stale", None)
    as_ = getattr(seq, "_abs_stale", None)
    if as_ is False and getattr(seq, "_abs", None) is not None:
        t, d = view_abs(seq._abs)
        return "abs", t, d
    if rs is False and getattr(seq, "_rel", None) is not None:
        t, d = view_rel(seq._rel)
        return "rel", t, d
    if as_ is None and rs is None:
        # freshness flags renamed: fall back to a copy (copy reads only fresh views)
        c = seq.copy()
        t, d = view_abs(c.abs)
        return "copy", t, d
    return None


def offs_first(timed):
    """canonical order for pairing over an absolute list: at equal ticks note-offs first (stable)."""
    return sorted(timed, key=lambda tm: (tm[0], 0 if mtype(tm[1]) == NOTE_OFF else 1))


# ----------------------------------------------------------------------------- note automata

CANONICAL_ABS = False   # set by checks of functions that canonicalise the absolute list before they look at it (see abs_order)


def abs_order(timed):
    """order in which an absolute list is judged: offs before ons at equal ticks — unless the stored list order itself is
    ill-formed (e.g. the note-on of a note stored before the note-off of the note it follows on that tick), in which case the
    stored order is returned and the caller sees the problems, i.e. treats the input as not well-formed.  The library is
    sensitive to that stored order in `quantise` and in the conversion to the relative view (both walk the list as stored),
    so for them such a list is a different input.  Functions that sort canonically before they look at the list (note
    pairing, hence quantise_note_lengths / cutoff / equals; merge; tokenise, which merges) see the same piece whatever the
    insertion order was: their checks set CANONICAL_ABS and the canonical order is judged whenever IT is well-formed."""
    if CANONICAL_ABS:
        canon = offs_first(timed)
        if not any(p[0] != "nonpositive" for p in automaton(canon)[0]):
            return canon
        return timed
    pr, _ = automaton(timed)
    if any(p[0] != "nonpositive" for p in pr):
        return timed
    return offs_first(timed)


def automaton(timed):
    """Strict on/off automaton per (channel, pitch) in the given order.
    Returns (problems, notes); notes = [(ch, pitch, on, off, vel, on_msg, off_msg)]."""
    openv = {}
    problems = []
    notes = []
    for t, m in timed:
        ty = mtype(m)
        if ty == NOTE_ON:
            k = (m.channel, m.note)
            if k in openv:
                problems.append(("retrigger", k, t))
            else:
                openv[k] = (t, m.velocity, m)
        elif ty == NOTE_OFF:
            k = (m.channel, m.note)
            if k not in openv:
                problems.append(("orphan", k, t))
            else:
                on, v, mm = openv.pop(k)
                if t - on <= 0:
                    problems.append(("nonpositive", k, t))
                notes.append((k[0], k[1], on, t, v, mm, m))
    for k, (on, v, mm) in openv.items():
        problems.append(("unclosed", k, on))
    return problems, notes


def notes_abs(a):
    """(problems, [(ch,pitch,on,dur,vel)]) of an absolute representation"""
    timed, _ = view_abs(a)
    pr, ns = automaton(offs_first(timed))
    return pr, sorted((c, p, on, off - on, v) for (c, p, on, off, v, _, _) in ns)


def wellformed(timed):
    pr, _ = automaton(timed)
    return not pr


def sounding(timed):
    """Union semantics: key -> merged half-open intervals during which the open count is positive.
    Returns (dict, paired) where paired means: never an off at count 0 and every count ends at 0."""
    cnt = collections.Counter()
    start = {}
    iv = collections.defaultdict(list)
    under = False
    for t, m in timed:
        ty = mtype(m)
        if ty == NOTE_ON:
            k = (m.channel, m.note)
            if cnt[k] == 0:
                start[k] = t
            cnt[k] += 1
        elif ty == NOTE_OFF:
            k = (m.channel, m.note)
            if cnt[k] <= 0:
                under = True
                continue
            cnt[k] -= 1
            if cnt[k] == 0 and t > start[k]:
                iv[k].append((start[k], t))
    paired = (not under) and all(v == 0 for v in cnt.values())
    return merge_intervals(iv), paired


def merge_intervals(iv):
    out = {}
    for k, l in iv.items():
        if not l:
            continue
        l = sorted(l)
        res = [list(l[0])]
        for a, b in l[1:]:
            if a <= res[-1][1]:
                if b > res[-1][1]:
                    res[-1][1] = b
            else:
                res.append([a, b])
        out[k] = [tuple(x) for x in res]
    return out


def shift_intervals(d, off):
    return {k: [(a + off, b + off) for a, b in l] for k, l in d.items()}


def union_intervals(ds):
    iv = collections.defaultdict(list)
    for d in ds:
        for k, l in d.items():
            iv[k].extend(l)
    return merge_intervals(iv)


def subset_intervals(a, b):
    """a subset of b (both merged interval dicts)"""
    for k, l in a.items():
        lb = b.get(k, [])
        for s, e in l:
            if not any(s >= s2 and e <= e2 for s2, e2 in lb):
                return False
    return True


def velocity_runs(notes, off=0):
    """notes from automaton -> key -> [(start,end,vel)] with abutting runs of equal velocity merged"""
    d = collections.defaultdict(list)
    for (c, p, on, of, v, _, _) in notes:
        d[(c, p)].append([on + off, of + off, v])
    return merge_runs(d)


def merge_runs(d):
    out = {}
    for k, l in d.items():
        res = []
        for a, b, v in sorted(l):
            if res and res[-1][1] == a and res[-1][2] == v:
                res[-1][1] = b
            else:
                res.append([a, b, v])
        out[k] = [tuple(x) for x in res]
    return out


def fused_notes(note_lists):
    """expected notes of a merge: per key interval union, overlapping fused, abutting kept apart.
    note_lists: iterables of (ch,pitch,on,dur,...) -> sorted [(ch,pitch,on,dur)]"""
    iv = collections.defaultdict(list)
    for ns in note_lists:
        for n in ns:
            iv[(n[0], n[1])].append((n[2], n[2] + n[3]))
    out = []
    for k, l in iv.items():
        l.sort()
        cur = list(l[0])
        for a, b in l[1:]:
            if a < cur[1]:
                cur[1] = max(cur[1], b)
            else:
                out.append((k[0], k[1], cur[0], cur[1] - cur[0]))
                cur = [a, b]
        out.append((k[0], k[1], cur[0], cur[1] - cur[0]))
    return sorted(out)


# ----------------------------------------------------------------------------- signatures, bars

def step_fn(changes, default, upto):
    """changes: [(tick, value)] in application order (ties: the later one wins).
    Returns the normalised change list of the step function on [0, upto]."""
    out = [(0, default)]
    for t, v in sorted(changes, key=lambda x: x[0]):
        if t > upto:
            break
        if out[-1][0] == t:
            out[-1] = (t, v)
        else:
            out.append((t, v))
    res = []
    for t, v in out:
        if not res or res[-1][1] != v:
            res.append((t, v))
    return res


def sig_changes(timed, kind):
    if kind == TS:
        return [(t, (m.numerator, m.denominator)) for t, m in timed if mtype(m) == TS]
    return [(t, keyval(m.key)) for t, m in timed if mtype(m) == KS]


def bar_len(num, den, ppqn=24):
    return Fraction(ppqn * 4 * num, den)


def bar_grid(ts_changes, upto, ppqn=24, default=(4, 4), at_least=1):
    """Bar starts implied by the signatures in force: [(start, length, (num, den))], covering
    [0, upto] (the last bar ends at or after upto), at least `at_least` bars."""
    ch = sorted(ts_changes, key=lambda x: x[0])
    i = 0
    cur = default
    t = 0
    out = []
    while True:
        while i < len(ch) and ch[i][0] <= t:
            cur = ch[i][1]
            i += 1
        L = bar_len(cur[0], cur[1], ppqn)
        if L.denominator != 1 or L <= 0:
            raise ValueError(f"non-integral bar length for {cur}")
        L = int(L)
        if t >= upto and len(out) >= at_least:
            break
        out.append((t, L, cur))
        t += L
    return out


def ceil_to_bar(ts_changes, d, ppqn=24):
    g = bar_grid(ts_changes, d, ppqn)
    return g[-1][0] + g[-1][1]


# ----------------------------------------------------------------------------- arithmetic references

def coins(steps, upto):
    ok = [False] * (upto + 1)
    ok[0] = True
    for g in range(1, upto + 1):
        ok[g] = any(g >= s and ok[g - s] for s in steps)
    return ok


def bin_value(v, bins):
    """smallest bin edge >= v (None if v lies above the top edge)"""
    for b in bins:
        if v <= b:
            return b
    return None


def regular_bins(n, vmax=127):
    """Arithmetic predicate: does round(vmax/n)-sized binning give strictly ascending edges ending
    exactly at vmax?  (computed from n only, never by calling the library)"""
    size = round(vmax / n)
    if size <= 0:
        return False
    edges = [min(vmax, (i + 1) * size + size / 2) for i in range(n)]
    ie = [int(e) for e in edges]
    return ie[-1] == vmax and all(a < b for a, b in zip(ie, ie[1:]))


def cof(p):
    x = (7 * (p % 12)) % 12
    return x if x <= 6 else x - 12


def cof_position(p):
    """position in [-5, 6] of a pitch on the circle of fifths, C = 0"""
    return cof(p)


MAJOR = (0, 2, 4, 5, 7, 9, 11)


def major(t):
    return frozenset((t + i) % 12 for i in MAJOR)


def nearest_ticks(fr):
    """acceptable roundings of an exact rational position (ties accept both neighbours)"""
    fl = fr.numerator // fr.denominator
    rem = fr - fl
    if rem < Fraction(1, 2):
        return (fl,)
    if rem > Fraction(1, 2):
        return (fl + 1,)
    return (fl, fl + 1)


def is_int(x):
    return type(x) is int


# ----------------------------------------------------------------------------- defaults derived from the settings alone

def default_note_values(settings):
    """allowed note values implied by the settings (normal, tuplet and dotted durations) — computed here from the settings
    constants, not through the library's helper functions, so that a corrupted or shared-and-mutated default list in the
    library cannot silently move the oracle with it"""
    ppqn = settings.PPQN
    normal = []
    i = settings.NOTE_VALUE_UPPER_BOUND
    while i >= 1:
        normal.append(int(i * ppqn))
        i /= 2
    j = 2
    while j <= settings.NOTE_VALUE_LOWER_BOUND:
        normal.append(int(ppqn / j))
        j *= 2
    out = list(normal)
    for (num, den) in settings.VALID_TUPLETS:
        out += [int(d * den / num) for d in normal]
    for it in range(settings.DOTTED_ITERATIONS):
        for d in normal:
            c = d * (1 + (1 - 1 / (2 ** (it + 1))))
            if float(c).is_integer():
                out.append(int(c))
    return out


def default_step_sizes(settings, upper_shift=0, lower_shift=0):
    ppqn = settings.PPQN
    normal = []
    i = 1 * 2 ** upper_shift
    while i >= 1:
        normal.append(int(i * ppqn))
        i /= 2
    j = 2
    while j <= 4 * 2 ** lower_shift:
        normal.append(int(ppqn / j))
        j *= 2
    return normal + [int(d * 2 / 3) for d in normal]

"""Executable reference model of a Sequence: a bag of timed events plus a duration.

Event tuples have the layout of oracle.events():
    (tick, type, channel, note, velocity, numerator, denominator, key, control, program)
Simple operations are given their own few-line semantics here; for the complex ones (quantise, normalise,
merge, cutoff, transpose, ...) the caller re-synchronises the model from the fresh stored view after the call
and only agreement of the two views is demanded (their content is the business of C05-C08/C14/C15)."""
from vmon import oracle as orc


class SeqModel:
    def __init__(self, ev=None, dur=0):
        self.ev = sorted(ev or [])
        self.dur = dur

    def copy(self):
        return SeqModel(list(self.ev), self.dur)

    @staticmethod
    def of(seq):
        m = SeqModel()
        m.resync(seq)
        return m

    def resync(self, seq):
        pk = orc.peek(seq)
        if pk is None:
            self.ev, self.dur = None, None
            return False
        kind, timed, dur = pk
        self.ev, self.dur = orc.events(timed), dur
        return True

    # ---- operations with their own semantics
    def add_abs(self, ev):
        self.ev = sorted(self.ev + [ev])
        self.dur = max(self.dur, ev[0])

    def add_rel_end(self, fields):
        """a non-wait message appended to the relative list sits at the current end"""
        self.ev = sorted(self.ev + [(self.dur,) + tuple(fields)])

    def add_wait(self, n):
        self.dur += n

    def pad(self, n):
        self.dur = max(self.dur, n)

    def set_channel(self, c):
        self.ev = sorted((e[0], e[1], c) + e[3:] for e in self.ev)

    def overwrite(self, ev, dur):
        self.ev = sorted(ev)
        self.dur = dur

    def concatenate(self, others):
        for o in others:
            self.ev = sorted(self.ev + [(e[0] + self.dur,) + e[1:] for e in o.ev])
            self.dur += o.dur

    def scale(self, k):
        self.ev = sorted((e[0] * k,) + e[1:] for e in self.ev)
        self.dur *= k

    def edit_velocity_of_note_ons(self, f):
        self.ev = sorted((e[:4] + (f(e[4]),) + e[5:]) if e[1] == orc.NOTE_ON else e for e in self.ev)

    def replace_event(self, before, after):
        ev = list(self.ev)
        if before in ev:
            ev.remove(before)
            ev.append(after)
            self.ev = sorted(ev)
        else:
            # the real object yielded a message the model does not know: make the mismatch visible at the next compare
            self.ev = sorted(ev + [(-1, "model-unknown-message") + tuple(before[2:])])

"""Runs the repository's own test suite under one property's monitors (in situ): the tests are copied to a scratch
directory outside /repo and /verif, scoda is still imported from the tree under test, every internal call of an
anchored function becomes an oracle evaluation.  The suite's own verdicts must be unchanged (all selected tests pass)."""
import collections
import glob
import json
import os
import re
import shutil
import subprocess
import tempfile

from vmon import env


def run(mod, work, timeout=1500):
    cfg = mod.INSITU or {}
    scratch = tempfile.mkdtemp(prefix="insitu_", dir=work)
    out = os.path.join(scratch, "_out")
    os.makedirs(out)
    res = {"counters": {}, "violations": [], "nviol": 0, "known": {}, "problem": None, "selected": cfg.get("k", "")}
    try:
        src_tests = os.path.join(env.REPO, "test")
        if not os.path.isdir(src_tests):
            src_tests = "/repo/test"     # scratch copies of the tree under test carry only scoda/
        shutil.copytree(src_tests, os.path.join(scratch, "test"),
                        ignore=shutil.ignore_patterns("__pycache__", "*.pyc", "out"))
        os.makedirs(os.path.join(scratch, "test", "out"), exist_ok=True)
        os.makedirs(os.path.join(scratch, "out"), exist_ok=True)
        os.makedirs(os.path.join(scratch, "test", "cases", "out"), exist_ok=True)
        e = env.child_env()
        e["VMON_PROP"] = mod.PROP
        e["VMON_OUT"] = out
        cmd = [env.PY, "-B", "-m", "pytest", "cases", "-q", "-p", "no:cacheprovider", "-p", "vmon.insitu_plugin",
               "-n", str(min(16, env.ncpu())), "--timeout=1200", "-o", "log_cli=false"]
        if cfg.get("k"):
            cmd += ["-k", cfg["k"]]
        try:
            p = subprocess.run(cmd, cwd=os.path.join(scratch, "test"), env=e, capture_output=True, text=True, timeout=timeout)
        except subprocess.TimeoutExpired:
            res["problem"] = f"watchdog fired after {timeout}s"
            return res
        tail = (p.stdout or "")[-3000:]
        m = re.search(r"(\d+) passed", tail)
        res["tests_passed"] = int(m.group(1)) if m else 0
        failed = re.search(r"(\d+) (failed|error)", tail)
        if p.returncode != 0 or failed or not m:
            res["problem"] = f"suite under monitors: exit {p.returncode}: {tail[-600:]}"
        from vmon.worker import Collector
        col = Collector(mod, env.seed())
        cnt = collections.Counter()
        for fn in glob.glob(os.path.join(out, "insitu_*.json")):
            with open(fn) as f:
                d = json.load(f)
            cnt.update(d["counters"])
            if d.get("dropped"):
                res["problem"] = (res["problem"] or "") + f" {d['dropped']} monitor records dropped"
            bytest = collections.defaultdict(list)
            for v in d["violations"]:
                if v["property"] == mod.PROP or v["property"] == "MONITOR" or v["property"] in getattr(mod, "ALSO", ()):
                    bytest[v.get("test")].append({"source": "monitor", "claim": f"{v['monitor']}.{v['claim']}",
                                                  "witness": v["witness"], "w": v.get("w"), "at": v.get("at")})
            for t, fl in bytest.items():
                col.add(f"insitu:{t}", {"insitu": t}, fl)
        res["counters"] = dict(cnt)
        res["violations"] = col.violations
        res["nviol"] = col.nviol
        res["known"] = col.known
        res["armed"] = sum(v for k, v in cnt.items() if k.endswith(".armed"))
        if res["armed"] == 0 and not res["problem"]:
            res["problem"] = "no monitor claim was armed by the suite"
        return res
    finally:
        shutil.rmtree(scratch, ignore_errors=True)

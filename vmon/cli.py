"""./run <Cxx> [--tier quick|thorough] [--replay file] [--jobs N] [--cases N]

Exit codes: 0 held on everything explored (KNOWN-FINDING lines for listed findings), 1 violation
(prints `VIOLATION property=<id> replay=<path>`), 2 inconclusive (never folded into the others)."""
import argparse
import json
import os
import shutil
import subprocess
import sys
import tempfile
import time

HERE = os.path.dirname(os.path.abspath(__file__))
sys.path.insert(0, os.path.dirname(HERE))

from vmon import env  # noqa: E402


def parse():
    ap = argparse.ArgumentParser()
    ap.add_argument("prop")
    ap.add_argument("--tier", default=os.environ.get("VERIF_TIER", "quick"), choices=["quick", "thorough"])
    ap.add_argument("--replay")
    ap.add_argument("--jobs", type=int)
    ap.add_argument("--no-insitu", action="store_true")
    return ap.parse_args()


def main():
    a = parse()
    prop = a.prop.upper()
    env.ensure_deps()
    if a.replay:
        return replay(prop, a.replay)
    return check(prop, a.tier, a.jobs, a.no_insitu)


# ------------------------------------------------------------------------------------------- replay

def replay(prop, path):
    env.activate()
    from vmon import monitors, worker
    mod = worker.load_check(prop)
    monitors.install(mod.MONITORS)
    with open(path) as f:
        rp = json.load(f)
    case = rp["case"]
    ctx = worker.Ctx(prop, rp.get("tier", "quick"), rp.get("seed", 0), 0, 1)
    if hasattr(mod, "setup"):
        mod.setup(ctx)
    col = worker.Collector(mod, rp.get("seed", 0))
    if isinstance(case, dict) and "phase" in case and hasattr(mod, "phases"):
        fails = []
        for name, fn in mod.phases(rp.get("tier", "quick")):
            if name == case["phase"]:
                monitors.LOG.begin()
                r = fn(ctx) or {}
                fails = list(r.get("fails", []))
                for v in monitors.LOG.end():
                    if worker._mine(mod, v):
                        fails.append({"claim": f"{v['monitor']}.{v['claim']}", "witness": v["witness"], "w": v.get("w")})
    else:
        res, fails, cross = worker.execute(mod, case, ctx, monitors.LOG)
    if hasattr(mod, "teardown"):
        mod.teardown(ctx)
    col.add(rp.get("index"), case, fails)
    for f in fails:
        print(f"  claim={f['claim']} witness={f.get('witness')}")
    for kid, k in col.known.items():
        print(f"KNOWN-FINDING: property={prop} {kid}")
    if col.nviol:
        print(f"VIOLATION property={prop} replay={path}")
        return 1
    print(f"replay of {path}: no violation on the current tree")
    return 0


# ------------------------------------------------------------------------------------------- check

def check(prop, tier, jobs=None, no_insitu=False):
    t0 = time.time()
    sys.path.insert(0, env.VERIF_ROOT)
    # the parent only needs the module's PLAN / metadata; scoda is imported in the workers
    env.activate()
    from vmon import worker, evidence, findings
    mod = worker.load_check(prop)
    plan = mod.PLAN[tier]
    nshards = jobs or int(plan.get("jobs", 4))
    nshards = max(1, min(nshards, env.ncpu()))
    timeout = float(plan.get("timeout", 900))
    work = tempfile.mkdtemp(prefix=f"vmon_{prop}_")
    procs = []
    try:
        for s in range(nshards):
            out = os.path.join(work, f"shard{s}.json")
            log = open(os.path.join(work, f"shard{s}.log"), "w")
            p = subprocess.Popen([env.PY, "-B", "-m", "vmon.worker", prop, tier, str(s), str(nshards), out],
                                 env=env.child_env(), cwd=work, stdout=log, stderr=subprocess.STDOUT)
            procs.append((s, p, out, log))
        reports = []
        problems = []
        deadline = time.time() + timeout
        for s, p, out, log in procs:
            try:
                rc = p.wait(timeout=max(1.0, deadline - time.time()))
            except subprocess.TimeoutExpired:
                p.kill()
                p.wait()
                problems.append(f"shard {s}: watchdog fired after {timeout}s")
                continue
            finally:
                log.close()
            if rc != 0 or not os.path.exists(out):
                tail = open(os.path.join(work, f"shard{s}.log")).read()[-1500:]
                problems.append(f"shard {s}: exit {rc}: {tail}")
                continue
            with open(out) as f:
                reports.append(json.load(f))
        insitu = None
        if tier == "thorough" and getattr(mod, "INSITU", None) and not no_insitu:
            from vmon import insitu as insitu_mod
            insitu = insitu_mod.run(mod, work, timeout=float(plan.get("insitu_timeout", 1500)))
        return evidence.conclude(mod, tier, reports, problems, insitu, time.time() - t0)
    finally:
        for s, p, out, log in procs:
            if p.poll() is None:
                p.kill()
        shutil.rmtree(work, ignore_errors=True)


if __name__ == "__main__":
    sys.exit(main())

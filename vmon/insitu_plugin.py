"""pytest plugin: runs the repository's own tests with the monitors of one property attached (in situ).
Loaded with -p vmon.insitu_plugin; configured through VMON_PROP / VMON_OUT."""
import json
import os

import pytest

_STATE = {}


def pytest_configure(config):
    from vmon import env
    env.activate()
    from vmon import monitors, worker
    mod = worker.load_check(os.environ["VMON_PROP"])
    monitors.install(mod.MONITORS)
    _STATE.update(mod=mod, LOG=monitors.LOG, viol=[], tests=0)


@pytest.hookimpl(hookwrapper=True)
def pytest_runtest_protocol(item, nextitem):
    LOG = _STATE.get("LOG")
    if LOG is not None:
        LOG.begin()
    yield
    if LOG is not None:
        _STATE["tests"] += 1
        for v in LOG.end():
            v["test"] = item.nodeid
            if len(_STATE["viol"]) < 400:
                _STATE["viol"].append(v)


def pytest_sessionfinish(session, exitstatus):
    LOG = _STATE.get("LOG")
    if LOG is None:
        return
    out = os.environ.get("VMON_OUT")
    if not out:
        return
    wid = os.environ.get("PYTEST_XDIST_WORKER", "main")
    with open(os.path.join(out, f"insitu_{wid}_{os.getpid()}.json"), "w") as f:
        json.dump({"counters": dict(LOG.cnt), "violations": _STATE["viol"], "tests": _STATE["tests"],
                   "dropped": LOG.dropped}, f, default=str)

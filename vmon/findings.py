"""Known findings: genuine defects recorded rather than repaired, keyed by MECHANISM.

`known_findings.json` is read-only at run time.  A failing claim is attributed to a known entry only if
(i) the check's classifier recognises the entry's trigger predicate on the witness / case,
(ii) the failing claim is one of the claims the entry lists, and
(iii) the classifier confirmed that the damage is confined to what the mechanism explains.
Everything else is a VIOLATION.  `fixed` entries suppress nothing."""
import json
import os

from vmon import env

PATH = os.path.join(env.VERIF_ROOT, "known_findings.json")


def load():
    try:
        with open(PATH) as f:
            return json.load(f)
    except FileNotFoundError:
        return {"known": [], "fixed": []}


class Attributor:
    def __init__(self, mod):
        self.mod = mod
        self.entries = {}
        for e in load().get("known", []):
            if e.get("property") == mod.PROP:
                self.entries[e["trigger"]] = e

    def attribute(self, fail, case):
        """returns the known entry explaining this failing claim, or None"""
        if not self.entries or not hasattr(self.mod, "classify"):
            return None
        try:
            trig = self.mod.classify(fail, case)
        except Exception:
            return None
        if not trig:
            return None
        e = self.entries.get(trig)
        if e is None:
            return None
        claims = e.get("claims", [])
        if fail.get("claim") in claims or any(c.endswith("*") and str(fail.get("claim", "")).startswith(c[:-1]) for c in claims):
            return e
        return None

"""Corpus-derived workloads: the seven real MIDI files of /repo/test/res are loaded with the real loader, cut into
windows, and fed to the same monitored operations as the generated cases — realistic densities (chords, fast runs,
ties, pedal events) that random micro-cases lack."""
import glob
import os
import random

from vmon import env, gen

_CACHE = {}


def files():
    """the MIDI fixtures; a scratch copy of the tree under test (mutation self-test) carries only scoda/, the fixtures
    (test data, not code under test) are then taken from /repo"""
    fs = sorted(glob.glob(os.path.join(env.REPO, "test", "res", "*.mid")))
    return fs or sorted(glob.glob(os.path.join("/repo", "test", "res", "*.mid")))


def raw_tracks():
    """[(file, track index, Sequence)] — every track loaded separately, as the loader returns them"""
    if "raw" not in _CACHE:
        from scoda.sequences.sequence import Sequence
        out = []
        for f in files():
            seqs = Sequence.sequences_load(file_path=f)
            for i, s in enumerate(seqs):
                if len(s.rel._messages) > 4:
                    out.append((os.path.basename(f), i, s))
        _CACHE["raw"] = out
    return _CACHE["raw"]


def duration(seq):
    """duration of a Sequence through the observer (the library's get_sequence_duration raises on an empty sequence)"""
    from vmon import oracle as orc
    pk = orc.peek(seq)
    return pk[2] if pk else 0


def window(rng, min_len=24, max_len=400, normalise=True):
    """a copy of a random window of a random real track: (descriptor, Sequence)"""
    name, ti, s = rng.choice(raw_tracks())
    d = duration(s)
    ln = rng.randint(min_len, max_len)
    off = rng.randrange(0, max(1, d - ln))
    ps = s.split([off, ln]) if off > 0 else s.split([ln])
    w = ps[1] if off > 0 and len(ps) > 1 else ps[0]
    if normalise:
        w.normalise()
    return {"file": name, "track": ti, "offset": off, "length": ln}, w


def pipeline_piece(rng_or_file, merge=None):
    """the documented pipeline on a real file: load -> (merge) -> quantise_and_normalise -> split into bars"""
    from scoda.sequences.sequence import Sequence
    f = rng_or_file if isinstance(rng_or_file, str) else rng_or_file.choice(files())
    seqs = Sequence.sequences_load(file_path=f)
    multi = "multi_track" in f
    if merge is None:
        merge = not multi
    if merge:
        s = seqs[0]
        s.merge(seqs[1:])
        seqs = [s]
    for s in seqs:
        s.quantise_and_normalise()
    return os.path.basename(f), seqs


def phase(n_quick, n_thorough, body, name="corpus"):
    """wraps `body(rng, k) -> (descriptor, nontrivial)` into a phase function running n cases"""
    def fn(ctx):
        from vmon.monitors import LOG
        n = n_quick if ctx.tier == "quick" else n_thorough
        hashes, shapes, samples = [], {}, []
        import time as _t
        t0 = _t.time()
        budget = float(os.environ.get("VERIF_PHASE_BUDGET_S") or (30 if ctx.tier == "quick" else 150))
        done = 0
        for k in range(ctx.shard, n, ctx.nshards):
            if _t.time() - t0 > budget:
                break
            done += 1
            rng = random.Random(f"{ctx.seed}:{ctx.prop}:{name}:{k}")
            n0 = len(LOG.viol)
            desc, nontrivial = body(rng, k)
            for v in LOG.viol[n0:]:
                v.setdefault("case_desc", desc)
            if nontrivial:
                hashes.append(gen.chash(["corpus", desc]))
            key = f"corpus:{desc.get('file', '?')}"
            shapes[key] = shapes.get(key, 0) + 1
            if len(samples) < 1:
                samples.append({"corpus_case": desc})
        return {"evaluations": done, "hashes": hashes, "shapes": shapes, "samples": samples}
    fn.all_shards = True
    return fn

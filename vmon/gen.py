"""Seeded workload generators and builders.  Cases are plain JSON-able dicts so that a replay file
holds the fully materialised case.  Builders construct real scoda objects through the public API,
always in canonical equal-tick order (channel, then offs before ons), because add_absolute_message
alone does not canonicalise the order of equal-tick messages."""
import hashlib
import json
import random

TYPE_ORDER = {"internal": 0, "sequence_control": 1, "ks": 2, "ts": 3, "cc": 4, "pc": 5, "off": 6, "on": 7}
KEYS = ["C", "G", "D", "A", "E", "B", "F#", "C#", "F", "Bb", "Eb", "Ab", "Db", "Gb", "Cb"]
SIGS = [(2, 4), (3, 4), (4, 4), (5, 4), (6, 8), (2, 2), (7, 8), (12, 8), (3, 8), (9, 8), (8, 8)]   # 8/8 is the library default
DEFAULT_NOTE_VALUES = [24, 12, 6, 16, 8, 4, 36, 18, 9]
DEFAULT_STEPS_TOK = [2, 3, 4, 6, 8, 12, 16, 24]


def case_rng(seed, pid, shard, i):
    return random.Random(f"{seed}:{pid}:{shard}:{i}")


def chash(obj):
    return int(hashlib.blake2b(json.dumps(obj, sort_keys=True, default=str).encode(), digest_size=8).hexdigest(), 16)


# ----------------------------------------------------------------------------- note material

def wf_notes(rng, n, chans=(0,), pitches=(60, 61, 62), tmax=200, lmin=1, lmax=40, ons=None, lens=None,
             tend=None, uniq_vel=True):
    """well-formed notes: per (channel, pitch) non-overlapping (abutting allowed).
    Returns [[ch, pitch, on, len, vel]]."""
    notes = []
    busy = {}
    vels = list(range(1, 128))
    rng.shuffle(vels)
    for _ in range(n):
        c = rng.choice(chans)
        p = rng.choice(pitches)
        on = rng.choice(ons) if ons is not None else rng.randrange(0, tmax)
        ln = rng.choice(lens) if lens is not None else rng.randint(lmin, lmax)
        if tend is not None and on + ln > tend:
            continue
        iv = busy.setdefault((c, p), [])
        if any(not (on + ln <= a or on >= b) for a, b in iv):
            continue
        iv.append((on, on + ln))
        v = vels[len(notes) % len(vels)] if uniq_vel else rng.randint(1, 127)
        notes.append([c, p, on, ln, v])
    return notes


def rand_extras(rng, n, tmax, ticks=None, kinds=("cc",), chans=(0,)):
    """non-note events with unique tags: cc (control,value) pairs are unique within a case"""
    out = []
    for i in range(n):
        t = rng.choice(ticks) if ticks else rng.randrange(0, max(1, tmax))
        k = rng.choice(kinds)
        if k == "cc":
            out.append(["cc", t, rng.choice(chans), 1 + (i % 100), 1 + (i * 7 + rng.randrange(0, 5)) % 120])
        elif k == "pc":
            out.append(["pc", t, rng.choice(chans), rng.randrange(0, 128)])
        elif k == "ts":
            s = rng.choice(SIGS)
            out.append(["ts", t, s[0], s[1]])
        elif k == "ks":
            out.append(["ks", t, rng.choice(KEYS)])
    return out


def end_of(spec):
    d = 0
    for n in spec.get("notes", []):
        d = max(d, n[2] + n[3])
    for e in spec.get("extra", []):
        d = max(d, e[1])
    if spec.get("pad"):
        d = max(d, spec["pad"])
    return d


# ----------------------------------------------------------------------------- builders (import scoda lazily)

def _lib():
    from scoda.elements.message import Message
    from scoda.enumerations.message_type import MessageType as MT
    from scoda.misc.music_theory import Key
    from scoda.sequences.sequence import Sequence
    from scoda.sequences.relative_sequence import RelativeSequence
    from scoda.sequences.absolute_sequence import AbsoluteSequence
    return Message, MT, Key, Sequence, RelativeSequence, AbsoluteSequence


def abs_items(spec):
    """[(tick, channel, typeorder, note, kind, payload)] in canonical order"""
    items = []
    for c, p, on, ln, v in spec.get("notes", []):
        items.append((on, c, TYPE_ORDER["on"], p, "on", (c, p, v)))
        items.append((on + ln, c, TYPE_ORDER["off"], p, "off", (c, p)))
    for c, p, on, v in spec.get("hanging", []):
        items.append((on, c, TYPE_ORDER["on"], p, "on", (c, p, v)))       # a note-on that is never released (ill-formed, legal)
    for e in spec.get("extra", []):
        k = e[0]
        if k == "cc":
            items.append((e[1], e[2], TYPE_ORDER["cc"], -1, "cc", (e[2], e[3], e[4])))
        elif k == "pc":
            items.append((e[1], e[2], TYPE_ORDER["pc"], -1, "pc", (e[2], e[3])))
        elif k == "ts":      # optional 5th entry: the channel the signature message carries (default: none given, i.e. 0)
            ch = e[4] if len(e) > 4 else None
            items.append((e[1], ch or 0, TYPE_ORDER["ts"], -1, "ts", (e[2], e[3]) if ch is None else (e[2], e[3], ch)))
        elif k == "ks":      # optional 4th entry: channel
            ch = e[3] if len(e) > 3 else None
            items.append((e[1], ch or 0, TYPE_ORDER["ks"], -1, "ks", (e[2],) if ch is None else (e[2], ch)))
    items.sort(key=lambda x: x[:4])
    return items


def make_message(kind, payload, time=None):
    Message, MT, Key, *_ = _lib()
    if kind == "on":
        return Message(message_type=MT.NOTE_ON, channel=payload[0], note=payload[1], velocity=payload[2], time=time)
    if kind == "off":
        return Message(message_type=MT.NOTE_OFF, channel=payload[0], note=payload[1], time=time)
    if kind == "cc":
        return Message(message_type=MT.CONTROL_CHANGE, channel=payload[0], control=payload[1], velocity=payload[2],
                       time=time)
    if kind == "pc":
        return Message(message_type=MT.PROGRAM_CHANGE, channel=payload[0], program=payload[1], time=time)
    if kind == "ts":
        if len(payload) > 2:
            return Message(message_type=MT.TIME_SIGNATURE, channel=payload[2], numerator=payload[0], denominator=payload[1], time=time)
        return Message(message_type=MT.TIME_SIGNATURE, numerator=payload[0], denominator=payload[1], time=time)
    if kind == "ks":
        if len(payload) > 1:
            return Message(message_type=MT.KEY_SIGNATURE, channel=payload[1], key=Key(payload[0]), time=time)
        return Message(message_type=MT.KEY_SIGNATURE, key=Key(payload[0]), time=time)
    if kind == "wait":
        return Message(message_type=MT.WAIT, time=payload[0])
    raise ValueError(kind)


def abs_messages(spec):
    return [make_message(k, pl, time=t) for (t, _, _, _, k, pl) in abs_items(spec)]


def rel_messages(spec):
    out = []
    t = 0
    sw = None
    if spec.get("split_waits") is not None:
        # a rest written as two (sometimes three) adjacent wait messages, as concatenate / pad / split leave them behind
        import random
        sw = random.Random(f"split-waits:{spec['split_waits']}")

    def wait(n):
        if sw is not None and n >= 2 and sw.random() < 0.6:
            a = sw.randrange(1, n)
            out.append(make_message("wait", (a,)))
            if n - a >= 2 and sw.random() < 0.3:
                b = sw.randrange(1, n - a)
                out.append(make_message("wait", (b,)))
                a += b
            out.append(make_message("wait", (n - a,)))
        else:
            out.append(make_message("wait", (n,)))
    for (tt, _, _, _, k, pl) in abs_items(spec):
        if tt > t:
            wait(tt - t)
            t = tt
        out.append(make_message(k, pl))
    pad = spec.get("pad")
    if pad and pad > t:
        wait(pad - t)
    return out


def build_seq(spec):
    """Sequence from a seqspec; spec['start'] selects which stored view is fresh at the start."""
    Message, MT, Key, Sequence, RelativeSequence, AbsoluteSequence = _lib()
    start = spec.get("start", "abs")
    npt = None
    if spec.get("np_ticks"):
        # integer ticks need not be Python ints: onsets computed with numpy (np.arange, np.cumsum) are np.int64 / np.int32
        import numpy as np
        npt = {"int64": np.int64, "int32": np.int32}[spec["np_ticks"]]
    if start == "rel":
        rm = rel_messages(spec)
        for m in rm:
            if npt is not None and m.time is not None:
                m.time = npt(m.time)
        return Sequence(relative_sequence=RelativeSequence(rm))
    s = Sequence()
    msgs = abs_messages(spec)
    for m in msgs:
        if npt is not None and m.time is not None:
            m.time = npt(m.time)
    if start == "abs_shuffled":
        # the same events handed to add_absolute_message in a shuffled order: the stored list is time-ordered, equal ticks keep
        # their insertion order (e.g. the note-on of a note before the note-off of the note it follows)
        import random
        random.Random(spec.get("shuffle_seed", 0)).shuffle(msgs)
    for m in msgs:
        s.add_absolute_message(m)
    pad = spec.get("pad")
    if pad:
        if end_of({"notes": spec.get("notes", []), "extra": spec.get("extra", [])}) < pad:
            s.add_absolute_message(Message(message_type=MT.INTERNAL, time=pad))
    if start == "both":
        s.rel
    return s


def raw_rel_seq(msgs):
    """Sequence from a raw relative message list: [["on",ch,p,v] | ["off",ch,p] | ["wait",n] | ["ts",n,d] | ["ks",k] | ["cc",ch,c,v]]"""
    Message, MT, Key, Sequence, RelativeSequence, AbsoluteSequence = _lib()
    out = []
    for m in msgs:
        k = m[0]
        if k == "on":
            out.append(make_message("on", (m[1], m[2], m[3])))
        elif k == "off":
            out.append(make_message("off", (m[1], m[2])))
        elif k == "wait":
            out.append(make_message("wait", (m[1],)))
        elif k == "ts":
            out.append(make_message("ts", tuple(m[1:])))     # ["ts", n, d] or ["ts", n, d, channel]
        elif k == "ks":
            out.append(make_message("ks", tuple(m[1:])))     # ["ks", key] or ["ks", key, channel]
        elif k == "cc":
            out.append(make_message("cc", (m[1], m[2], m[3])))
        elif k == "pc":
            out.append(make_message("pc", (m[1], m[2])))
    return Sequence(relative_sequence=RelativeSequence(out))



DEGENERATE_SHAPES = ["empty", "rests_only", "meta_only", "one_note_tick0_len1", "one_long_note_tick0", "chord_tick0", "chord_late_uneven",
                     "one_note_then_rest", "one_event_duration0", "same_pitch_two_channels", "abutting_chain", "late_single_note",
                     "one_tick_everything"]


def degenerate(spec, i):
    """Replaces the content of a sequence spec by a degenerate but legal shape (empty, rests only, signatures / controllers only, a
    single note, everything on one tick, ...), keeping which stored view is fresh.  Returns the name of the shape."""
    import random
    r = random.Random(f"degenerate:{i}")
    shape = DEGENERATE_SHAPES[(i // 37) % len(DEGENERATE_SHAPES)]
    chans = sorted({n[0] for n in spec.get("notes", [])}) or [0]
    c0, c1 = chans[0], (chans[1] if len(chans) > 1 else (chans[0] + 1) % 16)
    p = r.choice([60, 61, 36, 100])
    v = lambda: r.randint(1, 127)
    notes, extra, pad = [], [], None
    if shape == "rests_only":
        pad = r.choice([1, 24, 37, 96, 384])
    elif shape == "meta_only":
        extra = [["ts", 0, *r.choice([(4, 4), (3, 4), (6, 8)])], ["ks", 0, r.choice(KEYS)]]
        if r.random() < 0.5:
            extra.append(["cc", r.choice([0, 5, 24]), c0, 7, 99])
        pad = r.choice([None, 96])
    elif shape == "one_note_tick0_len1":
        notes = [[c0, p, 0, 1, v()]]
    elif shape == "one_long_note_tick0":
        notes = [[c0, p, 0, r.choice([24, 96, 97, 384]), v()]]
    elif shape == "chord_tick0":
        ln = r.choice([1, 6, 24])
        notes = [[c0, p + k, 0, ln, v()] for k in range(r.randint(2, 5))]
    elif shape == "chord_late_uneven":
        t = r.choice([1, 7, 24, 95])
        notes = [[c0, p + k, t, 1 + 5 * k, v()] for k in range(r.randint(2, 4))]
    elif shape == "one_note_then_rest":
        notes = [[c0, p, r.choice([0, 3]), r.choice([2, 12]), v()]]
        pad = r.choice([48, 96, 200])
    elif shape == "one_event_duration0":
        extra = [r.choice([["cc", 0, c0, 64, 127], ["pc", 0, c0, 5], ["ts", 0, 4, 4], ["ks", 0, KEYS[0]]])]
    elif shape == "same_pitch_two_channels":
        ln = r.choice([1, 12])
        notes = [[c0, p, 0, ln, v()], [c1, p, 0, ln, v()]]
    elif shape == "abutting_chain":
        ln = r.choice([1, 1, 6])
        notes = [[c0, p, k * ln, ln, v()] for k in range(r.randint(2, 6))]
    elif shape == "late_single_note":
        notes = [[c0, p, r.choice([96, 383, 1000]), r.choice([1, 24]), v()]]
    elif shape == "one_tick_everything":
        t = r.choice([0, 24])
        notes = [[c0, p, t, 6, v()], [c0, p + 1, t, 6, v()]]
        extra = [["cc", t, c0, 7, 100], ["ts", t, 3, 4], ["ks", t, KEYS[1]]]
    spec["notes"], spec["extra"] = notes, extra
    spec.pop("hanging", None)
    if pad is None:
        spec.pop("pad", None)
    else:
        spec["pad"] = pad
    return shape


def relabel_channels(specs, i):
    """Moves the channels of the given specs (consistently, injectively) onto the drum channel 9 and its neighbours / channel 15;
    pitches, ticks and velocities stay.  Returns the mapping."""
    chans = sorted({n[0] for s in specs for n in s.get("notes", [])} | {h[0] for s in specs for h in s.get("hanging", [])} |
                   {e[2] for s in specs for e in s.get("extra", []) if e[0] in ("cc", "pc")})
    targets = [[9, 15, 10, 8, 0], [15, 9, 0, 10, 8], [9, 0, 15, 8, 10]][(i // 11) % 3]
    if not chans or len(chans) > len(targets):
        return {}
    cmap = {c: targets[k] for k, c in enumerate(chans)}
    for s in specs:
        for n in s.get("notes", []):
            n[0] = cmap[n[0]]
        for h in s.get("hanging", []):
            h[0] = cmap[h[0]]
        for e in s.get("extra", []):
            if e[0] in ("cc", "pc"):
                e[2] = cmap[e[2]]
    return cmap

# ----------------------------------------------------------------------------- pieces (multi-track, bar-laid)

def bar_plan(rng, nseg=(1, 3), nbars=(1, 3), sigs=None, ppqn=24):
    """[(start, length, (num, den))] plus the signature events [(tick, num, den)]"""
    sigs = sigs or [(4, 4), (3, 4), (6, 8), (2, 4), (5, 4), (2, 2), (7, 8), (12, 8)]
    bars = []
    ts_ev = []
    t = 0
    prev = None
    for _ in range(rng.randint(*nseg)):
        s = rng.choice(sigs)
        if s == prev:
            continue
        prev = s
        ts_ev.append((t, s[0], s[1]))
        L = ppqn * 4 * s[0] // s[1]
        for _ in range(rng.randint(*nbars)):
            bars.append((t, L, s))
            t += L
    return bars, ts_ev, t


def piece(rng, ntracks=None, sigs=None, nseg=(1, 3), nbars=(1, 3), lens=None, ongrid=None, ragged=True, keys=True,
          multi_channel=False, max_notes=8, cross_bars=True, pitches=(60, 61, 72), meta=None):
    """multi-track, bar-laid piece.  Signatures (and keys) sit on bar lines of the meta track.
    Returns {"tracks": [seqspec], "ts": [(t,n,d)], "ks": [(t,key)], "bars": [(start,len,(n,d))], "total", "meta"}"""
    bars, ts_ev, total = bar_plan(rng, nseg=nseg, nbars=nbars, sigs=sigs)
    while not bars:
        bars, ts_ev, total = bar_plan(rng, nseg=nseg, nbars=nbars, sigs=sigs)
    ntr = ntracks or rng.randint(1, 3)
    meta = rng.randrange(ntr) if meta is None else meta
    ks_ev = []
    if keys:
        for b in rng.sample(bars, min(len(bars), rng.randint(0, 2))):
            ks_ev.append((b[0], rng.choice(KEYS)))
        ks_ev = sorted(dict(ks_ev).items())
    tracks = []
    for i in range(ntr):
        if ragged:
            tl = rng.choice([total, total, rng.randrange(1, total + 1), 0])
        else:
            tl = total
        chans = (0, 1) if (multi_channel and rng.random() < 0.5) else (0,)
        notes = []
        busy = {}
        vs = list(range(1, 128))
        rng.shuffle(vs)
        for _ in range(rng.randint(0, max_notes) if tl else 0):
            b0, bl, _sig = rng.choice(bars)
            if b0 >= tl:
                continue
            on = b0 + (rng.choice([x for x in range(bl) if ongrid(x)]) if ongrid else rng.randrange(0, bl))
            ln = rng.choice(lens) if lens else rng.randint(1, 60)
            if not cross_bars and on + ln > b0 + bl:
                cand = [v for v in (lens or range(1, 61)) if on + v <= b0 + bl]
                if not cand:
                    continue
                ln = rng.choice(cand)
            if on + ln > total or on >= tl:
                continue
            c, p = rng.choice(chans), rng.choice(pitches)
            iv = busy.setdefault((c, p), [])
            if any(not (on + ln <= a or on >= b) for a, b in iv):
                continue
            iv.append((on, on + ln))
            notes.append([c, p, on, ln, vs[len(notes) % 127]])
        extra = []
        if i == meta:
            extra += [["ts", t, n, d] for (t, n, d) in ts_ev]
            extra += [["ks", t, k] for (t, k) in ks_ev]
        spec = {"notes": notes, "extra": extra, "start": rng.choice(["abs", "rel", "both"])}
        end = end_of(spec)
        if tl > end and rng.random() < 0.7:
            spec["pad"] = tl
        tracks.append(spec)
    return {"tracks": tracks, "ts": ts_ev, "ks": ks_ev, "bars": bars, "total": total, "meta": meta}


# ----------------------------------------------------------------------------- extreme but legal values

def extremify(specs, i):
    """Re-label the given sequence specs (consistently over all of them, injectively, so that well-formedness and every
    relation between the events is preserved) to the ends of the legal ranges: channels towards 15, pitches towards 0 / 127
    (and the playable limits 21 / 108), the softest velocity to 1 and the loudest to 127.  Returns what was done."""
    import random
    r = random.Random(f"extreme:{i}")
    chans = sorted({n[0] for s in specs for n in s.get("notes", [])} |
                   {e[2] for s in specs for e in s.get("extra", []) if e[0] in ("cc", "pc")})
    pitches = sorted({n[1] for s in specs for n in s.get("notes", [])})
    vels = sorted({n[4] for s in specs for n in s.get("notes", [])})
    ctargets = [15] + r.sample([0, 1, 9, 14, 7, 3], 5)
    r.shuffle(ctargets)
    if 15 not in ctargets[:max(1, len(chans))]:
        ctargets[0] = 15
    cmap = {c: ctargets[k] for k, c in enumerate(chans)} if len(chans) <= len(ctargets) else {}
    ptargets = [0, 127, 1, 126, 21, 108, 20, 109]
    r.shuffle(ptargets)
    pmap = {p: ptargets[k] for k, p in enumerate(pitches)} if len(pitches) <= len(ptargets) else {}
    vmap = {}
    if vels:
        if 1 not in vels:
            vmap[vels[0]] = 1
        if 127 not in vels and len(vels) > 1:
            vmap[vels[-1]] = 127
    for s in specs:
        for n in s.get("notes", []):
            n[0] = cmap.get(n[0], n[0])
            n[1] = pmap.get(n[1], n[1])
            n[4] = vmap.get(n[4], n[4])
        for e in s.get("extra", []):
            if e[0] in ("cc", "pc"):
                e[2] = cmap.get(e[2], e[2])
    return {"channels": cmap, "pitches": pmap, "velocities": vmap}


def restate_signatures(spec, i):
    """Append a signature event that restates the one in force (a non-note event like any other: only normalise and merge
    may drop it; files exported by notation programs restate signatures at every section).  Always strictly before the
    final tick, so the duration and what sits on the final tick stay as the check's own generator decided."""
    import random
    r = random.Random(f"restate:{i}")
    end = end_of(spec)
    if end < 3:
        return None
    extra = spec.setdefault("extra", [])
    sigs = [e for e in extra if e[0] in ("ts", "ks") and e[1] < end - 1]
    if sigs and r.random() < 0.6:
        e = list(r.choice(sigs))
        t = r.randrange(e[1] + 1, end)
        # nothing of the same kind in between, otherwise the copy would not restate the one in force
        if not any(x[0] == e[0] and e[1] < x[1] <= t for x in extra):
            e[1] = t
            extra.append(e)
            return {"restated": e}
        return None
    kind = r.choice(["ts", "ks"])
    t1 = r.randrange(0, end - 1)
    t2 = r.randrange(t1 + 1, end)
    if any(x[0] == kind and x[1] >= t1 for x in extra):
        return None
    a = ["ts", t1, *r.choice([(3, 4), (4, 4), (6, 8)])] if kind == "ts" else ["ks", t1, r.choice(KEYS)]
    b = list(a)
    b[1] = t2
    extra.extend([a, b])
    return {"restated": b}


# ----------------------------------------------------------------------------- scale

def big_notes(i, n=None, chans=(0, 1), pitches=(60, 61, 62, 64, 67), lmin=1, lmax=60, gap=(0, 40), lens=None, grid=None):
    """Several hundred to a few thousand well-formed notes (per (channel, pitch) strictly sequential, abutting allowed), many of
    them of one pitch, up to len(chans) * len(pitches) sounding at once, the last ticks beyond 2**16; linear-time construction
    with its own random stream."""
    import random
    r = random.Random(f"big:{i}")
    n = n or r.choice([300, 600, 1200, 2500])
    keys = [(c, p) for c in chans for p in pitches]
    weights = [8 if k == keys[0] else 1 for k in keys]          # one key gets most of the notes
    cursor = {k: r.randrange(0, 50) for k in keys}
    notes = []
    for j in range(n):
        k = r.choices(keys, weights)[0]
        on = cursor[k] + (0 if r.random() < 0.3 else r.randint(*gap))
        ln = r.choice(lens) if lens else r.randint(lmin, lmax)
        if grid:
            on = -(-on // grid) * grid
        notes.append([k[0], k[1], on, ln, 1 + (j * 7) % 127])
        cursor[k] = on + ln
        if j == n // 2 and r.random() < 0.5:
            top = max(cursor.values())
            jump = r.choice([400, 1000, 5000, 70000, 140000])
            for kk in keys:                                       # a rest of several bars (or beyond tick 2**16) in the middle
                cursor[kk] = top + jump
    return notes


def msgs_from_notes(notes):
    """raw relative message list (the format of raw_rel_seq) from well-formed notes, canonical equal-tick order"""
    ev = []
    for c, p, on, ln, v in notes:
        ev.append((on, 1, ["on", c, p, v]))
        ev.append((on + ln, 0, ["off", c, p]))
    ev.sort(key=lambda e: (e[0], e[1]))
    out, t = [], 0
    for tt, _, m in ev:
        if tt > t:
            out.append(["wait", tt - t])
            t = tt
        out.append(m)
    return out

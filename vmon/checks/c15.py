"""C15 — merge is the union.  Deciding oracle: post-contract on the real Sequence.merge; the driver adds the
permutation differential (notes must not depend on merge order)."""
from vmon import gen
from vmon.checks.common import obs, fail, both_views, random_prefix, apply_prefix

EXTREMES = "seqs"   # worker re-labels every sixth case to the ends of the legal ranges (gen.extremify)
SHUFFLE = "seqs"    # worker: every seventh case is built by add_absolute_message in shuffled order
CANONICAL_ABS = True   # the function under test pairs / merges over the canonically sorted list (oracle.abs_order)
SPLIT_WAITS = "seqs"   # worker: every fifth case is built from relative messages with rests split into adjacent waits
DEGEN = "seqs"    # worker: every 37th case gets degenerate operands (gen.degenerate)
REJECTED = "prefixes"    # worker: every thirteenth case starts with a call the library rejects (common.apply_prefix "rejected")
SCALE = True   # worker: every fortieth case is blown up by scale_case below
PROP = "C15"
MONITORS = ["merge"]
INSITU = {"k": "merge or load or composition or tokenisation"}
RULE = ("1-5 seeded well-formed sequences (overlapping / abutting / nested / identical notes on same and different channels, "
        "different lengths, empties, time/key signatures on shared ticks) merged through the real Sequence.merge; its "
        "contract decides sound union / fused notes / duration max / signatures kept; the driver re-merges in a permuted "
        "order and compares notes. Non-trivial: >= 2 non-empty inputs overlapping in time.")
PLAN = {"quick": {"cases": 5000, "jobs": 4, "timeout": 600},
        "thorough": {"cases": 2000000, "jobs": 16, "timeout": 3000, "budget_s": 360}}
FLOORS = {"quick": {"merge.fused_notes.armed": 8000, "c15.fusion_happened": 1000, "c15.abutting": 500,
                    "merge.signatures_ts.armed": 3000},
          "thorough": {"merge.fused_notes.armed": 200000, "c15.fusion_happened": 20000}}


def scale_case(case, i):
    if (i // 40) % 2 == 1:
        # a hocket over 9-20 operands: every part's notes abut the notes of the part before on one key
        import random
        r = random.Random(f"c15-hocket:{i}")
        parts = r.randint(9, 20)
        seqs = [{"notes": [], "extra": [], "start": r.choice(["abs", "rel", "both"])} for _ in range(parts)]
        t = 0
        for k in range(parts * r.randint(2, 4)):
            ln = r.choice([6, 12, 24])
            seqs[k % parts]["notes"].append([0, 60 + (k // parts) % 2, t, ln, 1 + k % 127])
            t += ln
        case["seqs"] = seqs
        case["perm"] = list(range(parts)) if r.random() < 0.5 else r.sample(range(parts), parts)
        case["prefixes"] = [[] for _ in seqs]
        return
    for k, sp in enumerate(case["seqs"][:3]):
        sp["notes"] = gen.big_notes(i * 10 + k, n=[400, 900, 300][k % 3], chans=(0, 1), pitches=(60, 61, 62), lmin=1, lmax=40, gap=(0, 80))
        sp.pop("pad", None)
    case["prefixes"] = [[] for _ in case["seqs"]]

def make_case(rng, i, tier):
    k = rng.randint(1, 5)
    pitches = rng.choice([(60, 61), (60,), (60, 61, 62)])
    seqs = []
    for j in range(k):
        chans = rng.choice([(0,), (0, 1), (1,)])
        n = rng.choice([0, 1, 2, 3, 5])
        notes = gen.wf_notes(rng, n, chans=chans, pitches=pitches, tmax=60, lmin=1, lmax=30)
        if seqs and rng.random() < 0.3 and seqs[-1]["notes"]:
            # identical / abutting / nested relatives of a note of the previous sequence
            c, p, on, ln, v = rng.choice(seqs[-1]["notes"])
            kind = rng.choice(["same", "abut", "nested", "overlap"])
            cand = {"same": [c, p, on, ln, 99], "abut": [c, p, on + ln, rng.randint(1, 10), 98],
                    "nested": [c, p, on + ln // 3, max(1, ln // 3), 97], "overlap": [c, p, on + ln // 2, ln, 96]}[kind]
            if all(not (cand[0] == x[0] and cand[1] == x[1] and not (cand[2] + cand[3] <= x[2] or cand[2] >= x[2] + x[3])) for x in notes):
                notes.append(cand)
        extra = []
        if rng.random() < 0.5:
            # signatures incl. pairs of equal quotient but different spelling (3/4 vs 6/8, 2/2 vs 4/4, 2/4 vs 4/8)
            sig = rng.choice([(3, 4), (4, 4), (6, 8), (2, 2), (2, 4), (4, 8), (3, 2), (6, 4), (12, 8), (5, 4), (8, 8), (8, 8)])   # 8/8: the library default
            extra.append(["ts", rng.choice([0, 24, 48, 72]), sig[0], sig[1]])
            if rng.random() < 0.3:
                sig2 = rng.choice([(3, 4), (6, 8), (2, 2), (4, 4), (4, 8), (2, 4)])
                extra.append(["ts", rng.choice([96, 120]), sig2[0], sig2[1]])
        if rng.random() < 0.3:
            extra.append(["ks", rng.choice([0, 24, 48]), rng.choice(["C", "G"])])
        if rng.random() < 0.3:
            extra += gen.rand_extras(rng, 1, 60, kinds=("cc",), chans=chans)
        spec = {"notes": notes, "extra": extra, "start": rng.choice(["abs", "rel", "both"])}
        if rng.random() < 0.4:
            spec["pad"] = rng.randrange(0, 150)
        seqs.append(spec)
    if i % 9 == 4:
        # chains over three and more inputs: B abuts A, C starts inside B (and sometimes D inside C) on one channel and pitch —
        # the fused note runs from the earliest start to the latest end whatever the merge order
        import random
        r5 = random.Random(f"c15-chain:{i}")
        c, p = r5.choice([0, 1]), pitches[0]
        t0, la = r5.randrange(0, 20), r5.randint(4, 20)
        lb, lc = r5.randint(6, 20), r5.randint(4, 30)
        chain = [[c, p, t0, la, 91], [c, p, t0 + la, lb, 92], [c, p, t0 + la + r5.randint(1, lb - 1), lc, 93]]
        if r5.random() < 0.4:
            chain.append([c, p, chain[2][2] + r5.randint(1, lc), r5.randint(2, 25), 94])
        if r5.random() < 0.5:
            seqs = []        # the chain alone ...
        for note in chain:
            seqs.append({"notes": [note], "extra": [], "start": r5.choice(["abs", "rel", "both"])})
        k = len(seqs)
    perm = list(range(k))
    rng.shuffle(perm)
    if i % 18 == 4:
        perm = list(range(k))    # ... and sometimes merged exactly in chain order
    prefixes = [[op for op in random_prefix(rng, n=(1, 2)) if op["op"] != "merge_empty"] if (i % 4 == 3 and rng.random() < 0.6) else [] for _ in seqs]
    case = {"seqs": seqs, "perm": perm, "into_empty": rng.random() < 0.5, "prefixes": prefixes}
    if i % 19 == 7 and len(seqs) >= 2:
        # two different keys that a flattened (channel, pitch) encoding could confuse: (c, p) and (c + 1, p - K) for the strides K a
        # table of pitches might use (128, 127, 109 = piano top + 1, 108, 100, 88 keys), sounding at the same time in two operands
        import random
        r6 = random.Random(f"c15-stride:{i}")
        K = [109, 128, 127, 108, 100, 88, 110, 16][(i // 19) % 8]
        c = r6.choice([0, 1, 2, 8, 14])
        p = r6.randrange(max(K, 0), 128) if K <= 127 else None
        t0, ln = r6.randrange(0, 30), r6.randint(6, 30)
        if p is not None:
            seqs[0]["notes"] = [n for n in seqs[0]["notes"] if (n[0], n[1]) != (c, p)] + [[c, p, t0, ln, 88]]
            seqs[-1]["notes"] = [n for n in seqs[-1]["notes"] if (n[0], n[1]) != (c + 1, p - K)] + [[c + 1, p - K, t0 + r6.randint(1, ln - 1), ln, 89]]
        else:
            # stride 128 cannot collide inside 0..127; use the neighbouring-channel, same-pitch pair instead
            seqs[0]["notes"] = [n for n in seqs[0]["notes"] if (n[0], n[1]) != (c, 127)] + [[c, 127, t0, ln, 88]]
            seqs[-1]["notes"] = [n for n in seqs[-1]["notes"] if (n[0], n[1]) != (c + 1, 0)] + [[c + 1, 0, t0 + 2, ln, 89]]
        case["stride"] = K
    if i % 7 == 2:
        case["argument_form"] = ["tuple", "iter", "generator"][(i // 7) % 3]
    return case


def run(case, ctx):
    from vmon.monitors import LOG
    from scoda.sequences.sequence import Sequence
    seqs = [apply_prefix(gen.build_seq(s), pf) for s, pf in zip(case["seqs"], case.get("prefixes") or [[]] * len(case["seqs"]))]
    pre = [obs(s) for s in seqs]
    fails = []
    if case["into_empty"]:
        m = Sequence()
        m.merge([s.copy() for s in seqs])
    else:
        m = seqs[0].copy()
        m.merge([s.copy() for s in seqs[1:]])
    got = obs(m)
    if case.get("argument_form"):
        # "merging any sequences": the same operands handed over as a tuple / one-shot iterator / generator must give what the
        # list form gave (the contract judged that one)
        af = case["argument_form"]
        ops = [s.copy() for s in (seqs if case["into_empty"] else seqs[1:])]
        m3 = Sequence() if case["into_empty"] else seqs[0].copy()
        m3.merge(tuple(ops) if af == "tuple" else iter(ops) if af == "iter" else (x for x in ops))
        LOG.n("c15.argument_form." + af)
        g3 = obs(m3)
        if g3["events"] != got["events"] or g3["dur"] != got["dur"]:
            fails.append(fail("argument_form_changes_result", {"form": af, "only_list_form": [e for e in got["events"] if e not in g3["events"]][:3],
                                                               "only_this_form": [e for e in g3["events"] if e not in got["events"]][:3]}))
    order = case["perm"]
    m2 = seqs[order[0]].copy()
    m2.merge([seqs[j].copy() for j in order[1:]])
    got2 = obs(m2)
    n1 = sorted(n[:4] for n in got["notes"])
    n2 = sorted(n[:4] for n in got2["notes"])
    if n1 != n2:
        fails.append(fail("order_independence", {"order": order, "a": n1[:5], "b": n2[:5]}))
    after = [obs(s) for s in seqs]
    if any(a["events"] != b["events"] or a["dur"] != b["dur"] for a, b in zip(pre, after)):
        fails.append(fail("inputs_changed_by_merge_of_copies", None))
    ea, da, er, dr = both_views(m)
    if ea != er or da != dr:
        fails.append(fail("views_disagree_after_merge", (da, dr)))
    allnotes = [n for p in pre for n in p["notes"]]
    total = len(allnotes)
    fused = total - len(got["notes"])
    if fused > 0:
        LOG.n("c15.fusion_happened")
    ends = {}
    abut = False
    for n in allnotes:
        ends.setdefault((n[0], n[1]), set()).add(n[2] + n[3])
    for n in allnotes:
        if n[2] in ends.get((n[0], n[1]), ()):
            abut = True
    if abut:
        LOG.n("c15.abutting")
    nonempty = [p for p in pre if p["notes"]]
    overlap = len(nonempty) >= 2
    return {"nontrivial": overlap, "fails": fails,
            "shape": (len(seqs), len(nonempty), min(fused, 3), abut, case["into_empty"]),
            "observed": {"inputs": [len(p["notes"]) for p in pre], "merged": len(got["notes"]), "dur": got["dur"]}}


def _corpus_body(rng, k):
    from vmon import corpus
    from scoda.sequences.sequence import Sequence
    n = rng.randint(2, 3)
    ws = []
    desc = {"windows": []}
    for _ in range(n):
        d, w = corpus.window(rng, min_len=48, max_len=300)
        if rng.random() < 0.5:
            w.set_channel(rng.randrange(0, 3))
        ws.append(w)
        desc["windows"].append(d)
    desc["file"] = desc["windows"][0]["file"]
    m = Sequence()
    m.merge(ws)
    return desc, sum(1 for w in ws if obs(w)["notes"]) >= 2


def phases(tier):
    from vmon import corpus
    return [("corpus", corpus.phase(200, 10000, _corpus_body))]

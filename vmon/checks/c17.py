"""C17 — equals distinguishes exactly the musically different.  Deciding oracle: the post-contract on the real
AbsoluteSequence.equals compares the library's verdict with an independent event comparison on EVERY call; the
driver produces metamorphic pairs (identity, copy, re-representation, shuffled insertion, 7 single-attribute
perturbations) under all 16 flag combinations and calls equals both ways."""
import itertools

from vmon import gen
from vmon.checks.common import obs, fail

CANONICAL_ABS = True   # equals pairs over the canonically sorted list (oracle.abs_order)
SCALE = True   # worker: every fortieth case (or SCALE_EVERY-th) is blown up by scale_case below
PROP = "C17"
MONITORS = ["equals"]
INSITU = {"k": "equals or eq or tokenisation or copy"}
RULE = ("base well-formed sequences x {identity, copy, via-relative, shuffled insertion} x perturbation of exactly one "
        "attribute (pitch, onset order-preserving, onset order-changing, duration, velocity, channel relabel, signature "
        "numerator, signature denominator, proportional signature (3/4 vs 6/8), signature tick, none) x all 16 ignore-flag combinations, equals called in both directions; the contract "
        "on the real equals decides every call. Non-trivial: the oracle confirms that the pair differs in exactly the "
        "perturbed attribute (or not at all for the equal families).")
PLAN = {"quick": {"cases": 2500, "jobs": 4, "timeout": 600},
        "thorough": {"cases": 2000000, "jobs": 16, "timeout": 3000, "budget_s": 360}}
FLOORS = {"quick": {"equals.verdict.armed": 60000, "c17.expected_unequal_calls": 10000, "c17.expected_equal_calls": 10000, "c17.note_less_pair": 200, "c17.restruck_pairs": 80},
          "thorough": {"equals.verdict.armed": 1500000}}
PERT = ["none", "pitch", "onset_keep_order", "onset_change_order", "duration", "velocity", "channel", "ts_value", "ts_tick",
        "ks_value", "ks_tick", "add_note", "channel_move", "channel_swap", "ts_proportional", "ts_denominator"]
FLAGS = list(itertools.product([False, True], repeat=4))


def make_restrike_case(rng, i):
    """ill-formed but legal operands: a key struck again while its earlier stroke still sounds.  The contract's oracle is not
    armed for them (what the "notes" of such a sequence are is the library's business); the driver only demands what every
    reading agrees on: a copy is equal, and moving the note-off that ends the re-struck sound changes WHEN the key sounds, so the
    operands differ musically and must compare unequal under every flag combination."""
    ch = rng.choice([0, 1, 5])
    p = rng.choice([60, 64])
    a = rng.randrange(0, 30)
    b = a + rng.randint(1, 30)            # second stroke while the first is open
    c = b + rng.randint(1, 30)            # the only note-off of the key
    other = [[ch, 67, rng.randrange(0, 60), rng.randint(2, 20), 90]]
    ev = [["on", a, ch, p, 70], ["on", b, ch, p, 80], ["off", c, ch, p]]
    if i % 2 == 0:
        # an excerpt that opens (or continues) with the release of a key on the very tick the key is struck again: a note-off
        # that closes nothing, then the struck note whose end is what the operands differ in
        ev = [["stray_off", b, ch, p], ["on", b, ch, p, 80], ["off", c, ch, p]]
    delta = rng.choice([1, 6, 12, -1]) if c - 1 > b else rng.choice([1, 6, 12])
    return {"restrike": {"events": ev, "other": other, "moved_off": c + delta}, "route": rng.choice(["build", "shuffled"]),
            "shuffle_seed": rng.randrange(10 ** 6), "pert": "restruck_note_off_moved"}


def scale_case(case, i):
    """hundreds of notes reaching beyond tick 100 000; the operands differ by a single tick in the onset or the end of a late note"""
    import random
    if case.get("restrike"):
        return
    r = random.Random(f"c17-big:{i}")
    notes = gen.big_notes(i, n=r.choice([300, 500]), chans=(0, 1), pitches=(60, 62, 64), lmin=2, lmax=30, gap=(1, 30))
    shift = r.choice([0, 110000, 250000])
    notes = [[c, p, on + shift, ln, v] for (c, p, on, ln, v) in notes]
    a = {"notes": [list(n) for n in notes], "extra": [["ts", 0, 4, 4]], "start": "abs"}
    b = {"notes": [list(n) for n in notes], "extra": [["ts", 0, 4, 4]], "start": r.choice(["abs", "rel"])}
    pert = r.choice(["none", "duration", "onset_keep_order", "pitch", "velocity"])
    j = r.randrange(len(notes) - 20, len(notes))
    n = b["notes"][j]
    if pert == "duration":
        n[3] += 1
    elif pert == "onset_keep_order":
        n[2] += 1
        n[3] -= 1 if n[3] > 1 else 0
    elif pert == "pitch":
        n[1] += 12
    elif pert == "velocity":
        n[4] = n[4] % 127 + 1
    # keep b well-formed: undo the perturbation if it made two notes of one key overlap
    key = [x for x in b["notes"] if x[0] == n[0] and x[1] == n[1] and x is not n]
    if any(not (n[2] + n[3] <= x[2] or n[2] >= x[2] + x[3]) for x in key):
        b["notes"][j] = list(notes[j])
        pert = "none"
    case.update({"a": a, "b": b, "pert": pert, "route": "build"})

def make_case(rng, i, tier):
    if i % 23 == 11:
        return make_restrike_case(rng, i)
    pert = PERT[i % len(PERT)]
    # signature perturbations mostly on multi-channel operands: which channel a signature message sits on, and where it sits
    # among the notes, must not influence how the notes of the channels are interleaved and compared
    p_single = 0.3 if pert in ("ts_tick", "ks_tick", "ts_value", "ks_value", "ts_proportional", "ts_denominator") else 0.7
    single = rng.random() < p_single and pert not in ("channel_move", "channel_swap")
    chans = (rng.choice([0, 2]),) if single else rng.choice([(0, 1), (0, 1, 2)])
    notes = gen.wf_notes(rng, rng.randint(1, 7), chans=chans, pitches=(60, 62, 64, 65), tmax=90, lmin=2, lmax=30)
    if not notes:
        notes = [[chans[0], 60, 0, 10, 5]]
    if not single and len(notes) >= 2 and rng.random() < 0.85:
        # exact onset ties between channels (the interleaving's tie-break then depends on the channel order)
        a = notes[0]
        for b in notes[1:]:
            if b[0] != a[0] and b[1] != a[1]:
                b[2] = a[2]
                break
        # drop overlaps the move may have created
        keep, busy = [], {}
        for c, pp, on, ln, v in notes:
            if all(on + ln <= x or on >= y for x, y in busy.get((c, pp), [])):
                busy.setdefault((c, pp), []).append((on, on + ln))
                keep.append([c, pp, on, ln, v])
        notes = keep
    extra = []
    if rng.random() < 0.7:
        extra.append(["ts", rng.choice([0, 0, 24]), rng.choice([3, 4, 6, 8]), rng.choice([4, 8])])
    if rng.random() < 0.6:
        extra.append(["ks", rng.choice([0, 0, 48]), rng.choice(gen.KEYS)])
    if rng.random() < 0.3:
        extra += gen.rand_extras(rng, 1, 60, kinds=("cc", "pc"), chans=chans)
    if not single and pert in ("ts_tick", "ks_tick") and notes and rng.random() < 0.6:
        # the signature message (channel 0) leads one operand and sits behind the first notes of ANOTHER channel in the other:
        # the order in which the channels first appear differs between the operands, their notes do not
        kind = pert[:2]
        if not any(e[0] == kind for e in extra):
            extra.append(["ts", 0, 3, 4] if kind == "ts" else ["ks", 0, "G"])
        for e in extra:
            if e[0] == kind:
                e[1] = 0
        first = min(notes, key=lambda n: (n[2], n[0]))
        if first[0] == 0:
            other_ch = next((c for c in chans if c != 0), 1)
            for n in notes:
                n[0] = other_ch if n[0] == 0 else (0 if n[0] == other_ch else n[0])
    base = {"notes": notes, "extra": extra, "start": rng.choice(["abs", "rel", "both"])}
    if single:
        base["relabel"] = chans[0]  # signatures are built on channel 0: make the whole sequence single-channel
    if rng.random() < 0.3:
        base["pad"] = 150
    other = {"notes": [list(n) for n in notes], "extra": [list(e) for e in extra], "start": rng.choice(["abs", "rel", "both"])}
    if single:
        other["relabel"] = chans[0]
    if rng.random() < 0.3:
        other["pad"] = rng.choice([150, 200])
    j = rng.randrange(len(notes))
    n = other["notes"][j]
    applied = pert
    if pert == "pitch":
        n[1] += rng.choice([1, -1, 12])
    elif pert == "velocity":
        n[4] = n[4] % 127 + 1
    elif pert == "duration":
        n[3] += rng.choice([1, 5])
    elif pert == "onset_keep_order":
        n[2] += 1
        n[3] = max(1, n[3])
    elif pert == "onset_change_order":
        n[2] += 200
    elif pert == "add_note":
        other["notes"].append([chans[0], 70, rng.randrange(0, 90), 7, 3])
    elif pert == "channel_move":
        # one note moved to another channel that is in use anyway (both sequences keep the same SET of channels when the
        # note's old channel still carries other notes)
        used = sorted(set(x[0] for x in other["notes"]))
        cand = [c for c in used if c != n[0]]
        if cand:
            n[0] = rng.choice(cand)
        else:
            applied = "none"
    elif pert == "channel_swap":
        used = sorted(set(x[0] for x in other["notes"]))
        if len(used) >= 2:
            a, b = used[0], used[1]
            for x in other["notes"]:
                x[0] = b if x[0] == a else (a if x[0] == b else x[0])
        else:
            applied = "none"
    elif pert == "channel":
        if single:
            for x in other["notes"]:
                x[0] = 5
            other["relabel"] = 5
        else:
            n[0] = 7
    elif pert in ("ts_value", "ts_tick", "ks_value", "ks_tick", "ts_proportional", "ts_denominator"):
        kind = pert[:2]
        ev = [e for e in other["extra"] if e[0] == kind]
        if not ev:
            applied = "none"
        else:
            e = ev[0]
            if pert == "ts_value":
                e[2] = e[2] % 7 + 2
            elif pert == "ts_proportional":
                # same bar length, another signature (3/4 <-> 6/8, 4/4 <-> 8/8 <-> 2/2): a signature is its two numbers
                if e[2] % 2 == 0 and e[3] >= 4 and rng.random() < 0.5:
                    e[2], e[3] = e[2] // 2, e[3] // 2
                else:
                    e[2], e[3] = e[2] * 2, e[3] * 2
            elif pert == "ts_denominator":
                e[3] = {2: 4, 4: 8, 8: 4, 16: 8}[e[3]]
            elif pert == "ts_tick":
                e[1] += rng.choice([12, 12, 40, 95])
            elif pert == "ks_value":
                e[2] = gen.KEYS[(gen.KEYS.index(e[2]) + 1) % len(gen.KEYS)]
            else:
                e[1] += rng.choice([12, 12, 40, 95])
    # keep the perturbed sequence well-formed (drop the case's perturbation if it created an overlap)
    busy = {}
    ok = True
    for c, p, on, ln, v in other["notes"]:
        for a, b in busy.get((c, p), []):
            if not (on + ln <= a or on >= b):
                ok = False
        busy.setdefault((c, p), []).append((on, on + ln))
    if not ok:
        other["notes"] = [list(x) for x in notes]
        applied = "none"
    route = rng.choice(["build", "copy", "via_rel", "shuffled"])
    if applied in ("none", "ts_value", "ts_tick", "ks_value", "ks_tick", "ts_proportional", "ts_denominator") and (i // len(PERT)) % 3 == 1:
        # note-less operands (rest bars, padded bars): signatures are all there is to compare
        base["notes"], other["notes"] = [], []
        base.setdefault("pad", 96)
        other.setdefault("pad", base["pad"])
    return {"a": base, "b": other, "pert": applied, "route": route, "shuffle_seed": rng.randrange(10 ** 6)}


def _build(spec, route, shuffle_seed):
    import random
    from scoda.sequences.sequence import Sequence
    from scoda.sequences.relative_sequence import RelativeSequence
    if route == "shuffled":
        # same events inserted in a shuffled order (equal ticks keep canonical relative order by sorting afterwards)
        msgs = gen.abs_messages(spec)
        rnd = random.Random(shuffle_seed)
        idx = list(range(len(msgs)))
        rnd.shuffle(idx)
        s = Sequence()
        for k in idx:
            s.add_absolute_message(msgs[k])
        if spec.get("pad"):
            s.pad(spec["pad"])
        if spec.get("relabel") is not None:
            s.set_channel(spec["relabel"])
        return s
    s = gen.build_seq(spec)
    if spec.get("relabel") is not None:
        s.set_channel(spec["relabel"])
    if route == "copy":
        return s.copy()
    if route == "via_rel":
        return Sequence(relative_sequence=RelativeSequence([m.copy() for m in s.rel._messages]))
    return s


def _build_restrike(rs, off_tick, route, shuffle_seed):
    import random
    from scoda.sequences.sequence import Sequence
    msgs = []
    for e in rs["events"]:
        if e[0] == "on":
            msgs.append(gen.make_message("on", (e[2], e[3], e[4]), time=e[1]))
        elif e[0] == "stray_off":
            msgs.append(gen.make_message("off", (e[2], e[3]), time=e[1]))
        else:
            msgs.append(gen.make_message("off", (e[2], e[3]), time=off_tick))
    for (c, p, on, ln, v) in rs["other"]:
        msgs.append(gen.make_message("on", (c, p, v), time=on))
        msgs.append(gen.make_message("off", (c, p), time=on + ln))
    msgs.sort(key=lambda m: (m.time, 0 if m.message_type.value == "note_off" else 1))
    if route == "shuffled":
        random.Random(shuffle_seed).shuffle(msgs)
    s = Sequence()
    for m in msgs:
        s.add_absolute_message(m)
    return s


def run_restrike(case):
    from vmon.monitors import LOG
    rs = case["restrike"]
    base_off = [e for e in rs["events"] if e[0] == "off"][0][1]
    a = _build_restrike(rs, base_off, "build", 0)
    a2 = _build_restrike(rs, base_off, case["route"], case["shuffle_seed"])
    b = _build_restrike(rs, rs["moved_off"], case["route"], case["shuffle_seed"])
    fails = []
    LOG.n("c17.restruck_pairs")
    for fl in FLAGS:
        if not a.equals(a2, *fl) or not a2.equals(a, *fl) or not a.equals(a.copy(), *fl):
            fails.append(fail("restruck_same_events_unequal", {"flags": fl}))
        if a.equals(b, *fl) or b.equals(a, *fl):
            fails.append(fail("restruck_note_off_moved_compares_equal", {"flags": fl, "off": (base_off, rs["moved_off"]), "events": rs["events"]}))
    if (a == b) or not (a == a2):
        fails.append(fail("restruck_eq_dunder", None))
    return {"nontrivial": True, "fails": fails, "shape": ("restrike", case["route"]), "observed": {"off": (base_off, rs["moved_off"])}}


def run(case, ctx):
    from vmon.monitors import LOG
    if case.get("restrike"):
        return run_restrike(case)
    a = _build(case["a"], "build", 0)
    b = _build(case["b"], case["route"], case["shuffle_seed"])
    if case.get("shuffle_seed", 0) % 3 == 1 and case["route"] in ("build", "shuffled"):
        # a variant made from the other sequence's OWN Message objects (as concatenate, overwrite_absolute_messages or an editor
        # that re-uses untouched messages produce it): every message of b that a also has is the very same object in both
        from scoda.sequences.sequence import Sequence
        pool = list(a.abs._messages)
        b2, shared = Sequence(), 0
        for m in list(b.abs._messages):
            twin = next((x for x in pool if x.equivalent(m)), None)
            if twin is not None:
                pool.remove(twin)
                shared += 1
            b2.add_absolute_message(twin if twin is not None else m)
        if shared:
            b = b2
            LOG.n("c17.operands_sharing_message_objects")
    fails = []
    pert = case["pert"]
    oa, ob = obs(a), obs(b)
    if not oa["notes"] and not ob["notes"]:
        LOG.n("c17.note_less_pair")
    relax = {"velocity": 3, "channel": 0, "ts_value": 1, "ts_tick": 1, "ks_value": 2, "ks_tick": 2, "ts_proportional": 1,
             "ts_denominator": 1}
    for fl in FLAGS:
        r1 = a.equals(b, *fl)
        r2 = b.equals(a, *fl)
        if r1 != r2:
            fails.append(fail("symmetry", {"flags": fl, "ab": r1, "ba": r2}))
        exp_equal = pert == "none" or (pert in relax and fl[relax[pert]])
        if pert == "channel" and case["b"].get("relabel") != 5:
            exp_equal = None  # multi-channel relabel of a single note: the channel flag is outside the claim
        if pert in ("channel_move", "channel_swap"):
            exp_equal = None   # decided by the contract's oracle on every call (a swap between two notes that differ only in
            # velocity is no difference at all once velocities are ignored — found by the thorough tier)
        if exp_equal is True:
            LOG.n("c17.expected_equal_calls", 2)
        elif exp_equal is False:
            LOG.n("c17.expected_unequal_calls", 2)
        if exp_equal is not None and (bool(r1) != exp_equal):
            fails.append(fail("metamorphic_expectation", {"pert": pert, "flags": fl, "lib": r1, "expected": exp_equal}))
    # the other public entry points must give the verdict of equals with default flags: ==, != on the sequence and on
    # either representation, and keyword arguments must mean what the positional ones mean
    base = a.equals(b)
    entry = {"seq ==": a == b, "seq !=": not (a != b), "abs ==": a.abs == b.abs, "rel ==": a.rel == b.rel,
             "abs.equals": a.abs.equals(b.abs), "reversed ==": b == a}
    LOG.n("c17.entry_points_compared", len(entry))
    for name, r in entry.items():
        if bool(r) != bool(base):
            fails.append(fail("entry_points_disagree", {"entry": name, "verdict": bool(r), "equals": bool(base), "pert": pert}))
    for fl in (FLAGS[case["shuffle_seed"] % 16], FLAGS[(case["shuffle_seed"] // 16) % 16]):
        kw = a.equals(other=b, ignore_velocity=fl[3], ignore_key_signature=fl[2], ignore_time_signature=fl[1], ignore_channel=fl[0])
        if bool(kw) != bool(a.equals(b, *fl)):
            fails.append(fail("keyword_arguments_disagree", {"flags": fl, "keyword": kw}))
    if not a.equals(a) or not (a == a):
        fails.append(fail("reflexive", None))
    c = a.copy()
    if not a.equals(c) or not c.equals(a) or not (a == c):
        fails.append(fail("copy_equal", None))
    if a.equals(object()) or (a == 5):
        fails.append(fail("non_sequence_equal", None))
    # the perturbation really is a single-attribute difference (oracle-side confirmation)
    differs = oa["notes"] != ob["notes"] or [e for e in oa["non"] if e[1] in ("time_signature", "key_signature")] != \
        [e for e in ob["non"] if e[1] in ("time_signature", "key_signature")]
    confirmed = (pert == "none" and not differs) or (pert != "none" and differs)
    return {"nontrivial": confirmed, "fails": fails, "shape": (pert, case["route"], len(set(n[0] for n in case["a"]["notes"])), bool(case["a"]["notes"])),
            "observed": {"pert": pert, "route": case["route"], "differs": differs}}

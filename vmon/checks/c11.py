"""C11 — tick values stay integers.  Monitors: (i) the Message.__setattr__ type sanitizer (first-entry attribution:
file:line of the assignment that wrote a non-int time), (ii) the Sequence invariant's scan of the fresh views,
(iii) a state scan over every Message object alive after the history, (iv) the tokenise contract on token text."""
import gc

from vmon import gen
from vmon import oracle as orc
from vmon.checks.common import fail

PROP = "C11"
MONITORS = ["time_type", "seq_inv", "tokenise"]
INSITU = {"k": "not scale and not example", "note": "the two tests that pass a fractional factor to scale() are outside the property's scope (integer arguments only)"}
TECHNIQUE = "runtime monitoring: type sanitizer on Message.time + invariant scan + live-object scan + token contract over seeded integer-argument histories"
RULE = ("seeded integer-tick inputs driven through integer-argument histories: bar construction (bars shorter than their "
        "capacity), bar splitting of tracks of unequal length (placeholder/padded bars), Bar.to_sequence, "
        "Composition.from_sequences/to_sequences, tokenise/detokenise, and random chains of quantise, normalise, pad, split, "
        "merge, concatenate, transpose, cutoff, integer scale, note-length quantisation, and save -> (re-timed to another file resolution) -> load; every assignment to Message.time is "
        "type-checked by the sanitizer, every live Message is scanned after the history, every emitted token is scanned for "
        "'.'. Non-trivial: the history contains a padded bar or tracks of unequal length.")
PLAN = {"quick": {"cases": 1600, "jobs": 4, "timeout": 600},
        "thorough": {"cases": 800000, "jobs": 16, "timeout": 3000, "budget_s": 360}}
FLOORS = {"quick": {"time_type.int_assignments": 300000, "c11.padded_bar": 200, "c11.loaded_files": 200, "c11.unequal_tracks": 300, "c11.tokenised": 300,
                    "c11.live_messages_scanned": 100000, "tokenise.integer_tokens.armed": 300},
          "thorough": {"time_type.int_assignments": 10000000, "c11.padded_bar": 20000}}
SCEN = ["bars_tokens", "short_bar", "chain", "composition", "save_load"]
CHAIN = ["quantise", "normalise", "pad", "split", "merge", "concatenate", "transpose", "cutoff", "scale", "qnl", "qan", "set_channel",
         "split_bars", "copy"]
_TOK = {}


def make_case(rng, i, tier):
    scen = SCEN[i % len(SCEN)]
    grid = lambda x: x % 4 == 0 or x % 6 == 0  # noqa: E731
    case = {"scenario": scen}
    if scen in ("bars_tokens", "composition"):
        case["piece"] = gen.piece(rng, ntracks=rng.randint(1, 3), lens=gen.DEFAULT_NOTE_VALUES, ongrid=grid, ragged=True,
                                  keys=False, cross_bars=rng.random() < 0.5, meta=0,
                                  sigs=[(4, 4), (3, 4), (6, 8), (2, 4), (5, 4), (2, 2), (8, 8)])
        case["flags"] = [rng.random() < 0.5 for _ in range(4)]
        case["bins"] = rng.choice([1, 1, 2, 4, 8])
    elif scen == "short_bar":
        num, den = rng.choice([(4, 4), (3, 4), (6, 8), (2, 2), (7, 8), (5, 16), (3, 2)])
        cap = 96 * num // den
        notes = gen.wf_notes(rng, rng.randint(0, 4), pitches=(60, 62), ons=[t for t in range(cap) if grid(t)],
                             lens=gen.DEFAULT_NOTE_VALUES, tend=max(1, cap - rng.choice([0, 6, 12, 24])))
        case.update({"num": num, "den": den, "seq": {"notes": notes, "extra": [], "start": rng.choice(["abs", "rel", "both"])},
                     "seq2": {"notes": gen.wf_notes(rng, 2, pitches=(64, 65), ons=[0, 12, 24], lens=[12, 24], tend=cap), "extra": []},
                     "flags": [rng.random() < 0.5 for _ in range(4)]})
    elif scen == "save_load":
        case["seqs"] = [{"notes": gen.wf_notes(rng, rng.randint(1, 6), pitches=(60, 62, 64), tmax=150, lmax=40, uniq_vel=False),
                         "extra": gen.rand_extras(rng, rng.randint(0, 2), 150, kinds=("ts", "ks", "cc")) if j == 0 else [],
                         "start": rng.choice(["abs", "rel"])} for j in range(rng.randint(1, 3))]
        case["tpb"] = rng.choice([24, 24, 48, 96, 480, 100])
    else:
        case["pool"] = [{"notes": gen.wf_notes(rng, rng.randint(0, 5), chans=rng.choice([(0,), (0, 1)]), pitches=(60, 61, 62), tmax=100,
                                               lmax=40),
                         "extra": gen.rand_extras(rng, rng.randint(0, 2), 100, kinds=("cc", "ts", "pc")),
                         "start": rng.choice(["abs", "rel", "both"])} for _ in range(2)]
        for sp in case["pool"]:
            if rng.random() < 0.35:
                # never-released notes (their length is imputed by the library wherever notes are paired)
                sp["hanging"] = [[0, rng.choice([70, 71]), rng.randrange(0, 120), 90] for _ in range(rng.randint(1, 2))]
        case["ops"] = [{"op": rng.choice(CHAIN), "s": rng.randrange(2), "a": rng.randrange(1, 60), "k": rng.randint(1, 4)}
                       for _ in range(rng.randint(2, 9))]
    return case


def _tok(ntr, flags, bins):
    from scoda.tokenisation.notelike_tokenisation import MultiTrackLargeVocabularyNotelikeTokeniser as Tok
    key = (ntr, tuple(flags), bins)
    if key not in _TOK:
        _TOK[key] = Tok(num_tracks=ntr, flag_running_values=flags[0], flag_fuse_track=flags[1], flag_fuse_value=flags[2],
                        flag_fuse_velocity=flags[3], velocity_bins=bins)
    return _TOK[key]


def run(case, ctx):
    from vmon.monitors import LOG
    from scoda.elements.bar import Bar
    from scoda.elements.composition import Composition
    from scoda.elements.message import Message
    from scoda.exceptions.bar_exception import BarException
    from scoda.exceptions.tokenisation_exception import TokenisationException
    from scoda.sequences.sequence import Sequence
    fails = []
    scen = case["scenario"]
    hold = []
    nontrivial = False
    try:
        if scen in ("bars_tokens", "composition"):
            pc = case["piece"]
            seqs = [gen.build_seq(t) for t in pc["tracks"]]
            durs = set(orc.peek(s)[2] for s in seqs)
            if len(durs) > 1:
                LOG.n("c11.unequal_tracks")
                nontrivial = True
            if scen == "composition":
                comp = Composition.from_sequences(seqs, 0)
                out = comp.copy().to_sequences()
                hold += [comp, out]
                tb = [t.bars for t in comp.tracks]
            else:
                tb = Sequence.sequences_split_bars(seqs, 0)
            hold.append(tb)
            tok = _tok(len(seqs), case["flags"], case["bins"])
            state = {}
            toks = []
            try:
                chunks = []
                for bars in zip(*tb):
                    chunks.append(tok.tokenise([b.sequence.copy() for b in bars], state_dict=state))
                    toks += chunks[-1]
                toks2 = tok.tokenise([Bar.to_sequence([b.copy() for b in trk]) for trk in tb])
                LOG.n("c11.tokenised")
                hold.append(tok.detokenise(toks))
                hold.append(tok.detokenise(toks2))
                # token streams that no single tokenise call produced: each bar's tokens on their own (with running values a bar
                # may open with a pitch token that no value / velocity token precedes), and the second half of the stream
                for ch in chunks[1:4]:
                    hold.append(tok.detokenise(list(ch)))
                    LOG.n("c11.detokenised_partial_stream")
                if len(toks) >= 4:
                    hold.append(tok.detokenise(toks[len(toks) // 2:]))
                    hold.append(tok.get_info(toks[len(toks) // 2:]))
                    LOG.n("c11.detokenised_partial_stream")
                # the same notes as plain sequences without any signature message: the tokeniser's default signature is in
                # force and no signature token opens the stream (default versus the same value passed explicitly)
                plain = [gen.build_seq({"notes": t["notes"], "extra": [], "pad": -(-max(1, gen.end_of(t)) // 96) * 96}) for t in pc["tracks"]]
                toks3 = tok.tokenise([q.copy() for q in plain])
                LOG.n("c11.tokenised_without_signature")
                hold += [plain, tok.detokenise(toks3), tok.get_info(toks3)]
            except (TokenisationException, KeyError, IndexError, ValueError) as e:
                LOG.n(f"c11.observed.tokeniser_raises.{type(e).__name__}")
        elif scen == "short_bar":
            s = gen.build_seq(case["seq"])
            cap = 96 * case["num"] // case["den"]
            if orc.peek(s)[2] < cap:
                LOG.n("c11.padded_bar")
                nontrivial = True
            b1 = Bar(s, case["num"], case["den"])
            b2 = Bar(gen.build_seq(case["seq2"]), case["num"], case["den"])
            b3 = b2.copy()
            b3.transpose([3, 50, -48, 12][case["num"] % 4])
            joined = Bar.to_sequence([b1, b2.copy(), b1.copy(), b3])
            hold += [b1, b2, joined]
            joined.abs
            tok = _tok(1, case["flags"], 1)
            try:
                t1 = tok.tokenise([joined.copy()])
                LOG.n("c11.tokenised")
                hold.append(tok.detokenise(t1))
            except (TokenisationException, KeyError, IndexError, ValueError) as e:
                LOG.n(f"c11.observed.tokeniser_raises.{type(e).__name__}")
        elif scen == "save_load":
            import os
            import mido
            seqs = [gen.build_seq(sp) for sp in case["seqs"]]
            path = os.path.join(ctx.scratch, f"c11_{os.getpid()}.mid")
            try:
                Sequence.sequences_save(seqs, path)
                if case["tpb"] != 24:
                    # same music at another file resolution (integer multiple or not): re-written with mido
                    mf = mido.MidiFile(path)
                    k = case["tpb"] / 24
                    for trk in mf.tracks:
                        for m in trk:
                            m.time = int(round(m.time * k))
                    mf.ticks_per_beat = case["tpb"]
                    mf.save(path)
                out = Sequence.sequences_load(path)
                LOG.n("c11.loaded_files")
            finally:
                if os.path.exists(path):
                    os.remove(path)
            for o in out:
                o.quantise_and_normalise()
                o.abs
                o.rel
            hold += [seqs, out]
        else:
            pool = [gen.build_seq(sp) for sp in case["pool"]]
            hold.append(pool)
            for op in case["ops"]:
                s, o = pool[op["s"]], pool[1 - op["s"]]
                n = op["op"]
                if n == "quantise":
                    if op["a"] % 3 == 0:
                        s.quantise()
                    elif op["a"] % 7 == 1:
                        # a fine grid: more than sixteen step sizes (normal, triplet, dotted, odd subdivisions)
                        LOG.n("c11.long_step_list")
                        s.quantise([96, 48, 24, 12, 6, 3, 32, 16, 8, 4, 2, 36, 18, 9, 72, 20, 10, 5, 28, 14, 7][:17 + op["k"] % 5])
                    else:
                        # step sizes as the documented helpers generate them (tick values themselves: "an array of note
                        # values in ticks"), for every bound the helpers accept
                        from scoda.misc import util as _u
                        steps = (_u.get_default_step_sizes(upper_bound_shift=op["k"] % 3, lower_bound_shift=op["a"] % 2) if op["a"] % 3 == 1
                                 else _u.get_note_durations(2 ** (op["k"] % 4), 2 ** (1 + op["a"] % 4)))
                        LOG.n("c11.helper_generated_steps")
                        if not all(type(x) is int for x in steps):
                            fails.append(fail("helper_returns_non_int_tick_values", {"steps": [repr(x) for x in steps][:8]}))
                        s.quantise(steps)
                elif n == "normalise":
                    s.normalise()
                elif n == "pad":
                    s.pad(op["a"] * 3)
                elif n == "split":
                    ps = s.split([op["a"], op["a"] + 7])
                    hold.append(ps)
                    if ps:
                        pool[op["s"]] = ps[0]
                elif n == "merge":
                    s.merge([o.copy()])
                elif n == "concatenate":
                    s.concatenate([o.copy()])
                elif n == "transpose":
                    # small shifts and shifts that force octave wrapping (which re-normalises and re-quantises lengths)
                    s.transpose([op["k"] * 13 - 20, 50, -45, 60, -60][op["a"] % 5])
                elif n == "cutoff":
                    s.cutoff(op["a"], max(1, op["a"] // 2))
                elif n == "scale":
                    s.scale(op["k"])
                elif n == "qnl":
                    if op["a"] % 2 == 0:
                        s.quantise_note_lengths(do_not_extend=op["k"] % 2 == 0)
                    else:
                        from scoda.misc import util as _u
                        base = _u.get_note_durations(2 ** (op["k"] % 3), 2 ** (1 + op["a"] % 3))
                        vals = base + _u.get_tuplet_durations(base, 3, 2) + _u.get_dotted_note_durations(base, 1 + op["k"] % 2)
                        LOG.n("c11.helper_generated_values")
                        if not all(type(x) is int for x in vals):
                            fails.append(fail("helper_returns_non_int_tick_values", {"values": [repr(x) for x in vals][:8]}))
                        s.quantise_note_lengths(vals, do_not_extend=op["k"] % 2 == 0)
                elif n == "qan":
                    s.quantise_and_normalise()
                elif n == "set_channel":
                    s.set_channel(op["k"])
                elif n == "copy":
                    pool[op["s"]] = s.copy()
                elif n == "split_bars":
                    try:
                        tb = Sequence.sequences_split_bars([s.copy(), o.copy()], 0)
                        hold.append(tb)
                        if any(orc.peek(x)[2] for x in (s, o)) and orc.peek(s)[2] != orc.peek(o)[2]:
                            LOG.n("c11.unequal_tracks")
                            nontrivial = True
                        pool[op["s"]] = Bar.to_sequence(tb[0])
                    except BarException:
                        LOG.n("c11.observed.BarException")
            for s in pool:
                s.abs
                s.rel
    except BarException:
        LOG.n("c11.observed.BarException")
    # (iii) state scan over every Message alive (both views of every sequence reachable from the history)
    gc.collect()
    bad = []
    n = 0
    for ob in gc.get_objects():
        if isinstance(ob, Message):
            n += 1
            t = ob.__dict__.get("time")
            if t is not None and type(t) is not int:
                bad.append((ob.message_type.value, type(t).__name__, t))
    LOG.n("c11.live_messages_scanned", n)
    if bad:
        fails.append(fail("live_message_with_non_int_time", {"count": len(bad), "examples": bad[:3]}))
    del hold
    return {"nontrivial": nontrivial, "fails": fails, "shape": (scen, nontrivial),
            "observed": {"live_messages": n, "non_int": len(bad)}}

"""C04 — the absolute and the relative view never diverge under any history.

Observers (see DESIGN.md): (1) the class invariant on the real Sequence (both views fresh => same events and
duration; fires around every public call), (2) a black-box step monitor (copy + compare, per pool member, after
every step), (3) an executable reference model replayed next to the real object and compared with BOTH views at
every read and at the end of the history, (4) contracts on the two conversions.  Histories are generated over the
public alphabet from all three freshness start states; the (state x operation) matrix is in the evidence."""
from vmon import gen
from vmon import oracle as orc
from vmon.checks.common import fail
from vmon.model import SeqModel

SCALE_EVERY = 121
SCALE = True   # worker: every fortieth case is blown up by scale_case below
PROP = "C04"
MONITORS = ["seq_inv", "conv"]
INSITU = {"k": ""}
TECHNIQUE = "runtime monitoring: class invariant + conversion contracts on the real Sequence, reference-model history checker over seeded operation histories"
RULE = ("seeded histories of 1-12 public Sequence operations (all mutators, overwrites, edits while iterating either view, "
        "copies, refresh, reads of either view, readers) over a pool of 2-4 sequences started in each freshness state "
        "(only-abs, only-rel, both); after every step every pool member is copied and its views compared, at every read and "
        "at the end both views are compared with the reference model. Stratum A passes copies to concatenate (must be "
        "entirely clean), stratum B passes the sequences themselves (known aliasing finding). Non-trivial: a mutator ran "
        "while the other view was fresh and that other view was read afterwards.")
PLAN = {"quick": {"cases": 3000, "jobs": 4, "timeout": 600},
        "thorough": {"cases": 2000000, "jobs": 16, "timeout": 3000, "budget_s": 360}}
MUTATORS = ["add_abs_cc", "add_abs_note", "add_abs_cap", "add_rel_cc", "add_rel_wait", "add_rel_idx0", "pad", "set_channel", "overwrite_abs",
            "overwrite_rel", "concatenate", "scale", "scale_q", "transpose", "normalise", "quantise", "qnl", "qan", "cutoff",
            "merge", "iter_abs_edit", "iter_rel_edit", "iter_abs_peek_edit", "iter_rel_peek_edit", "iter_abs_peek_edit_break",
            "iter_rel_peek_edit_break"]
OTHERS = ["read_abs", "read_rel", "read_both", "refresh", "copy_replace", "copy_add", "iter_abs_partial", "iter_rel_partial",
          "split_mut", "split_add", "equals", "pairings", "interleaved", "times_of_type", "channel", "duration",
          "duration_relation", "is_consistent", "is_empty", "to_midi_track", "split_bars", "eq_dunder"]
OPS = MUTATORS + OTHERS
FLOORS = {"quick": {"seq_inv.views_events.armed": 20000, "to_rel.events.armed": 5000, "to_abs.events.armed": 5000,
                    "c04.model_compare": 6000, "#c04.visit.": 125},
          "thorough": {"seq_inv.views_events.armed": 1000000, "#c04.visit.": 125}}


def _small_spec(rng, start=None):
    chans = rng.choice([(0,), (0,), (0, 1)])
    notes = gen.wf_notes(rng, rng.randint(0, 4), chans=chans, pitches=(60, 61, 62), tmax=60, lmin=1, lmax=30)
    if rng.random() < 0.25:
        # ill-formed but legal material: stacked / re-struck notes of one pitch, every tick on the common grids
        notes = [[rng.choice(chans), rng.choice((60, 61)), 12 * rng.randrange(0, 5), 12 * rng.randint(1, 4), rng.randint(1, 127)]
                 for _ in range(rng.randint(2, 4))]
    extra = gen.rand_extras(rng, rng.randint(0, 2), 70, kinds=("cc", "ts", "ks", "pc"), chans=chans)
    sig = [e for e in extra if e[0] in ("ts", "ks")]
    if sig and rng.random() < 0.35:
        # the same signature twice on one tick (merged tracks each carry their own copy): two events, in both views
        extra.append(list(rng.choice(sig)))
    spec = {"notes": notes, "extra": extra, "start": start or rng.choice(["abs", "rel", "both"])}
    if rng.random() < 0.3:
        spec["pad"] = rng.randrange(0, 120)
    return spec


def scale_case(case, i):
    """a pool member with several hundred messages; the history then adds events far behind the end, overwrites, edits..."""
    sp = case["pool"][0]
    sp["notes"] = gen.big_notes(i, n=[300, 450, 700][(i // 120) % 3], chans=(0, 1), pitches=(60, 61, 62), lmin=1, lmax=30, gap=(0, 20))
    sp.pop("pad", None)
    for op in case["history"]:
        op["s"] = 0 if op["op"].startswith("add_abs") else op["s"]
        if "t" in op and op["op"] in ("add_abs_cc", "add_abs_note"):
            op["t"] = 5 + (op["t"] * 37) % 3000

def make_case(rng, i, tier):
    alias = (i % 3 == 2)
    npool = rng.randint(2, 3)
    pool = [_small_spec(rng, start=["abs", "rel", "both"][(i + j) % 3]) for j in range(npool)]
    hist = []
    n = rng.randint(1, 12)
    for step in range(n):
        name = rng.choice(MUTATORS) if rng.random() < 0.55 else rng.choice(OTHERS)
        op = {"op": name, "s": rng.randrange(0, 4), "o": rng.randrange(0, 4)}
        if name in ("add_abs_cc", "add_abs_note"):
            op["t"] = rng.randrange(0, 90)
        elif name == "add_abs_cap":
            op["t"] = rng.choice([rng.randrange(0, 90), rng.randrange(90, 400)])
        elif name == "add_rel_wait":
            op["n"] = rng.randint(1, 30)
        elif name == "pad":
            op["n"] = rng.randrange(0, 140)
        elif name == "set_channel":
            op["c"] = rng.randrange(0, 4)
        elif name.endswith("_peek_edit_break"):
            op["kth"] = rng.randint(1, 3)
        elif name in ("overwrite_abs", "overwrite_rel"):
            op["spec"] = _small_spec(rng, start="abs")
        elif name in ("scale", "scale_q"):
            op["k"] = rng.choice([1, 2, 2, 3])
        elif name == "transpose":
            op["k"] = rng.choice([1, -2, 5, 12, 60, -50])
        elif name == "quantise":
            op["steps"] = rng.choice([[6, 4], [12], None, [24, 16]])
        elif name == "qnl":
            op["dne"] = rng.random() < 0.5
        elif name == "cutoff":
            m = rng.randint(1, 30)
            op["m"], op["r"] = m, rng.randint(1, m)
        elif name in ("split_mut", "split_add"):
            op["caps"] = [rng.choice([10, 24, 7, 48]) for _ in range(rng.randint(1, 3))]
        elif name == "equals":
            op["flags"] = [rng.random() < 0.3 for _ in range(4)]
        hist.append(op)
    if i % 11 == 3:
        # coincidences a cheap "did anything change?" test would miss: one pitch on two channels whose ends SWAP ticks under
        # note-length quantisation (the (tick, pitch) layout of the absolute list stays the same while the owners of the note-offs
        # change), both views fresh when the operation runs
        import random
        r7 = random.Random(f"c04-crossing:{i}")
        t0 = r7.choice([0, 6, 24])
        a, b = r7.choice([(13, 11), (25, 23), (7, 5), (13, 11)])
        pool[0] = {"notes": [[0, 60, t0, a, 40], [1, 60, t0 + 1, b, 41]] + ([[0, 62, t0 + 30, 12, 42]] if r7.random() < 0.5 else []),
                   "extra": [], "start": "both"}
        pos = r7.randrange(0, min(2, len(hist)) + 1)
        hist.insert(pos, {"op": "read_both", "s": 0, "o": 1})
        hist.insert(pos + 1, {"op": r7.choice(["qnl", "qnl", "qan"]), "s": 0, "o": 1, "dne": False})
        hist.insert(pos + 2, {"op": r7.choice(["read_rel", "read_both", "pad"]), "s": 0, "o": 1, "n": 50})
    if i % 7 == 4:
        # a public call that the library rejects (it raises) somewhere in the history: it must leave both views as they were
        kinds = ["concatenate_bad_tail", "scale_fraction", "merge_bad_tail", "scale_small", "concatenate_bad_tail_two"]
        hist.insert((i // 7) % (len(hist) + 1), {"op": "rejected", "kind": kinds[(i // 7) % len(kinds)], "s": (i // 7) % 4, "o": (i // 21) % 4})
    return {"pool": pool, "history": hist, "alias": alias}


def classify(f, case):
    w = f.get("w")
    if not case.get("alias") or not isinstance(w, dict):
        return None
    if w.get("tainted") and w.get("shares_objects") and f.get("claim") in (
            "model_mismatch", "views_diverge", "seq_inv.views_events", "seq_inv.views_duration"):
        return "concatenate_aliases_arguments"
    return None


def _state(s):
    a = getattr(s, "_abs_stale", None)
    r = getattr(s, "_rel_stale", None)
    if a is None or r is None:
        return "?"
    return {(False, True): "A", (True, False): "R", (False, False): "B", (True, True): "N"}[(a, r)]


class _Stop(Exception):
    pass


def run(case, ctx):
    from vmon.monitors import LOG
    from scoda.elements.message import Message
    from scoda.enumerations.message_type import MessageType as MT
    from scoda.exceptions.sequence_exception import SequenceException
    from scoda.exceptions.bar_exception import BarException
    from scoda.sequences.sequence import Sequence

    pool = [gen.build_seq(sp) for sp in case["pool"]]
    models = [SeqModel.of(s) for s in pool]
    alive = list(pool)            # keeps every object alive (ids stay unique within the case)
    tainted = set()               # ids of sequences that took part in an aliasing concatenate
    confirmed = set()             # ... for which the identity probe saw shared Message objects right afterwards
    fails = []
    visited = set()
    interesting = False           # a mutator ran while the other view was fresh, and that view was read later
    pending = {}                  # id(seq) -> True when such a mutation is waiting for a read
    tag = [0]

    def shares(x):
        mine = []
        for nm in ("_abs", "_rel"):
            v = getattr(x, nm, None)
            if v is not None:
                mine += [id(m) for m in v._messages]
        ms = set(mine)
        dup_within = any(len(getattr(x, nm)._messages) != len(set(id(m) for m in getattr(x, nm)._messages))
                         for nm in ("_abs", "_rel") if getattr(x, nm, None) is not None)
        if dup_within:
            return True
        for y in alive:
            if y is x:
                continue
            for nm in ("_abs", "_rel"):
                v = getattr(y, nm, None)
                if v is not None and any(id(m) in ms for m in v._messages):
                    return True
        return False

    def inherit(src, cp):
        """a copy of a sequence that was damaged through aliasing carries the damage (not the sharing)"""
        alive.append(cp)
        if id(src) in tainted:
            tainted.add(id(cp))
        if id(src) in confirmed:
            confirmed.add(id(cp))

    def wit(idx, step, extra=None):
        s = pool[idx]
        d = {"seq": idx, "step": step, "op": case["history"][step]["op"] if step is not None and step < len(case["history"]) else "end",
             "tainted": id(s) in tainted, "shares_objects": id(s) in confirmed}
        if extra:
            d.update(extra)
        return d

    def compare_with_model(idx, step):
        s, m = pool[idx], models[idx]
        LOG.n("c04.model_compare")
        try:
            ta, da = orc.view_abs(s.abs)
            tr, dr = orc.view_rel(s.rel)
        except SequenceException as e:
            if "stale" in str(e).lower():
                fails.append(fail("unreadable", None, w=wit(idx, step, {"error": str(e)})))
                raise _Stop()
            raise
        ea, er = orc.events(ta), orc.events(tr)
        if pending.pop(id(s), None):
            nonlocal interesting
            interesting = True
        if ea != er or da != dr:
            fails.append(fail("views_diverge", None, w=wit(idx, step, {"abs_only": _diff(ea, er), "rel_only": _diff(er, ea), "dur": (da, dr)})))
            raise _Stop()
        if m.ev is not None and (ea != m.ev or da != m.dur):
            fails.append(fail("model_mismatch", None, w=wit(idx, step, {"model_only": _diff(m.ev, ea), "real_only": _diff(ea, m.ev),
                                                                         "dur": (m.dur, da)})))
            raise _Stop()

    def step_monitor(step):
        for idx, q in enumerate(pool):
            st = _state(q)
            if st == "N":
                fails.append(fail("unreadable", None, w=wit(idx, step, {"error": "both views marked stale"})))
                raise _Stop()
            c = q.copy()
            inherit(q, c)
            ta, da = orc.view_abs(c.abs)
            tr, dr = orc.view_rel(c.rel)
            ea, er = orc.events(ta), orc.events(tr)
            if ea != er or da != dr:
                fails.append(fail("views_diverge", None, w=wit(idx, step, {"abs_only": _diff(ea, er), "rel_only": _diff(er, ea), "dur": (da, dr), "by": "copy"})))
                raise _Stop()

    def cc(t=None):
        tag[0] += 1
        return Message(message_type=MT.CONTROL_CHANGE, channel=0, control=100 + tag[0] % 20, velocity=1 + tag[0] % 100, time=t)

    step = None
    try:
        for step, op in enumerate(case["history"]):
            i = op["s"] % len(pool)
            j = op["o"] % len(pool)
            s, m = pool[i], models[i]
            o = pool[j]
            name = op["op"]
            st = _state(s)
            visited.add((st, name))
            LOG.n(f"c04.visit.{st}.{name}")
            if name in MUTATORS and st == "B":
                pending[id(s)] = True
            try:
                if name == "read_abs":
                    s.abs
                    compare_with_model(i, step)
                elif name == "read_rel":
                    s.rel
                    compare_with_model(i, step)
                elif name == "read_both":
                    compare_with_model(i, step)
                elif name == "refresh":
                    s.refresh()
                elif name == "copy_replace":
                    c = s.copy()
                    inherit(s, c)
                    pool[i] = c
                    models[i] = m.copy()
                elif name == "copy_add":
                    if len(pool) < 4:
                        c = s.copy()
                        inherit(s, c)
                        pool.append(c)
                        models.append(m.copy())
                elif name == "add_abs_cc":
                    msg = cc(op["t"])
                    s.add_absolute_message(msg)
                    m.add_abs((op["t"],) + orc.fields(msg))
                elif name == "add_abs_cap":
                    # an end / bar marker, as detokenise places them: contributes duration only
                    s.add_absolute_message(Message(message_type=MT.INTERNAL, time=op["t"]))
                    m.pad(op["t"])
                elif name == "add_abs_note":
                    a = Message(message_type=MT.NOTE_ON, channel=0, note=80 + step, velocity=40 + step, time=op["t"])
                    b = Message(message_type=MT.NOTE_OFF, channel=0, note=80 + step, time=op["t"] + 5)
                    s.add_absolute_message(a)
                    s.add_absolute_message(b)
                    m.add_abs((op["t"],) + orc.fields(a))
                    m.add_abs((op["t"] + 5,) + orc.fields(b))
                elif name == "add_rel_cc":
                    msg = cc()
                    s.add_relative_message(msg)
                    m.add_rel_end(orc.fields(msg))
                elif name == "add_rel_wait":
                    s.add_relative_message(Message(message_type=MT.WAIT, time=op["n"]))
                    m.add_wait(op["n"])
                elif name == "add_rel_idx0":
                    msg = cc()
                    s.add_relative_message(msg, index=0)
                    m.add_abs((0,) + orc.fields(msg))
                elif name == "pad":
                    s.pad(op["n"])
                    m.pad(op["n"])
                elif name == "set_channel":
                    s.set_channel(op["c"])
                    m.set_channel(op["c"])
                elif name == "overwrite_abs":
                    msgs = gen.abs_messages(op["spec"])
                    s.overwrite_absolute_messages(msgs)
                    m.overwrite([(x.time,) + orc.fields(x) for x in msgs], max([x.time for x in msgs], default=0))
                elif name == "overwrite_rel":
                    msgs = gen.rel_messages(op["spec"])
                    s.overwrite_relative_messages(msgs)
                    tt, dd = orc.view_rel(type("R", (), {"_messages": msgs})())
                    m.overwrite(orc.events(tt), dd)
                elif name == "concatenate":
                    others = [o]
                    if case["alias"]:
                        s.concatenate(others)
                        m.concatenate([models[j].copy()])
                        tainted.add(id(s))
                        for x in others:
                            tainted.add(id(x))
                        if shares(s):
                            confirmed.add(id(s))
                            for x in others:
                                confirmed.add(id(x))
                    else:
                        cs = [x.copy() for x in others]
                        alive.extend(cs)
                        s.concatenate(cs)
                        m.concatenate([models[j]])
                elif name == "rejected":
                    try:
                        k = op["kind"]
                        if k == "concatenate_bad_tail":
                            s.concatenate([o.copy(), None])
                        elif k == "concatenate_bad_tail_two":
                            s.concatenate([o.copy(), o.copy(), 7])
                        elif k == "merge_bad_tail":
                            s.merge([o.copy(), None])
                        elif k == "scale_fraction":
                            s.scale(2.5, quantise_afterwards=False)
                        else:
                            s.scale(0.3, quantise_afterwards=False)
                        LOG.n("c04.rejected_call.accepted." + k)
                    except Exception:
                        LOG.n("c04.rejected_call.raised." + op["kind"])
                elif name == "scale":
                    s.scale(op["k"], quantise_afterwards=False)
                    m.scale(op["k"])
                elif name == "iter_abs_edit":
                    for x in s.messages_abs():
                        if x.message_type == MT.NOTE_ON:
                            x.velocity = (x.velocity % 127) + 1
                    m.edit_velocity_of_note_ons(lambda v: (v % 127) + 1)
                elif name == "iter_rel_edit":
                    for x in s.messages_rel():
                        if x.message_type == MT.NOTE_ON:
                            x.velocity = (x.velocity % 127) + 1
                    m.edit_velocity_of_note_ons(lambda v: (v % 127) + 1)
                elif name in ("iter_abs_peek_edit", "iter_rel_peek_edit", "iter_abs_peek_edit_break", "iter_rel_peek_edit_break"):
                    # legal pattern: inside the loop body first read the OTHER view, then edit the yielded message, and make
                    # no further call before the next message is requested (the generator re-invalidates around each yield
                    # and when it is exhausted or abandoned)
                    use_abs = "_abs_" in name
                    brk = name.endswith("_break")
                    it = s.messages_abs() if use_abs else s.messages_rel()
                    tick = 0
                    kth = 0
                    for x in it:
                        if not use_abs and x.message_type == MT.WAIT:
                            tick += x.time
                            continue
                        if x.message_type != MT.NOTE_ON:
                            continue
                        kth += 1
                        if brk and kth < op.get("kth", 1):
                            continue
                        if use_abs:
                            [s.get_sequence_duration_relation, s.is_empty, s.to_midi_track][step % 3]()
                            t_ev = x.time
                        else:
                            [s.get_sequence_duration, s.is_channel_consistent, lambda: s.abs][step % 3]()
                            t_ev = tick
                        before = (t_ev,) + orc.fields(x)
                        x.velocity = (x.velocity % 127) + 1
                        m.replace_event(before, (t_ev,) + orc.fields(x))
                        if brk:
                            break
                    del it
                elif name == "iter_abs_partial":
                    for k, x in enumerate(s.messages_abs()):
                        if k >= 1:
                            break
                elif name == "iter_rel_partial":
                    for k, x in enumerate(s.messages_rel()):
                        if k >= 1:
                            break
                else:
                    # complex operations: own content is C05-C08/C14/C15's business; model is re-synchronised
                    resync = True
                    if name == "scale_q":
                        s.scale(op["k"])
                    elif name == "transpose":
                        s.transpose(op["k"])
                    elif name == "normalise":
                        s.normalise()
                    elif name == "quantise":
                        s.quantise(None if op["steps"] is None else list(op["steps"]))
                    elif name == "qnl":
                        s.quantise_note_lengths(do_not_extend=op["dne"])
                    elif name == "qan":
                        s.quantise_and_normalise()
                    elif name == "cutoff":
                        s.cutoff(op["m"], op["r"])
                    elif name == "merge":
                        s.merge([o] if o is not s else [o.copy()])
                    else:
                        resync = False
                        if name in ("split_mut", "split_add"):
                            ps = s.split(list(op["caps"]))
                            alive.extend(ps)
                            if ps:
                                ps[0].transpose(1)
                                ps[0].set_channel(2)
                                ps[-1].scale(2, quantise_afterwards=False)
                                if name == "split_add" and len(pool) < 4:
                                    pool.append(ps[0])
                                    models.append(SeqModel.of(ps[0]))
                        elif name == "equals":
                            s.equals(o, *op["flags"])
                        elif name == "eq_dunder":
                            s == o
                        elif name == "pairings":
                            s.get_message_pairings()
                        elif name == "interleaved":
                            s.get_interleaved_message_pairings()
                        elif name == "times_of_type":
                            s.get_message_times_of_type([MT.TIME_SIGNATURE, MT.NOTE_ON])
                        elif name == "channel":
                            try:
                                s.get_sequence_channel()
                            except (IndexError, SequenceException) as e:
                                if "stale" in str(e).lower():
                                    raise
                                LOG.n("c04.observed.get_sequence_channel_raises")
                        elif name == "duration":
                            try:
                                s.get_sequence_duration()
                            except IndexError:
                                LOG.n("c04.observed.get_sequence_duration_raises_on_empty")
                        elif name == "duration_relation":
                            s.get_sequence_duration_relation()
                        elif name == "is_consistent":
                            s.is_channel_consistent()
                        elif name == "is_empty":
                            s.is_empty()
                        elif name == "to_midi_track":
                            s.to_midi_track()
                        elif name == "split_bars":
                            try:
                                Sequence.sequences_split_bars([s])
                            except BarException:
                                LOG.n("c04.observed.split_bars_raises_BarException")
                    if resync:
                        if not models[i].resync(s):
                            fails.append(fail("unreadable", None, w=wit(i, step, {"error": "no fresh view after " + name})))
                            raise _Stop()
            except _Stop:
                raise
            except SequenceException as e:
                if "stale" in str(e).lower():
                    fails.append(fail("unreadable", None, w=wit(i, step, {"error": str(e)})))
                    raise _Stop()
                LOG.n(f"c04.observed.op_exception.{name}.SequenceException")
                raise _Stop()
            step_monitor(step)
        for idx in range(len(pool)):
            compare_with_model(idx, len(case["history"]))
    except _Stop:
        pass
    # annotate invariant violations of this case with the aliasing facts (ids are unique while `alive` holds them)
    byid = {id(x): x for x in alive}
    for v in LOG.viol[LOG.mark:]:
        if v.get("monitor") == "seq_inv" and isinstance(v.get("w"), dict):
            x = byid.get(v["w"].get("self_id"))
            v["w"]["tainted"] = x is not None and id(x) in tainted
            v["w"]["shares_objects"] = x is not None and id(x) in confirmed
    return {"nontrivial": interesting, "fails": fails,
            "shape": (len(case["history"]), case["alias"], "".join(sorted(set(st for st, _ in visited)))),
            "observed": {"steps_run": (step or 0) + 1, "pool": len(pool), "visited": sorted(f"{a}.{b}" for a, b in visited)[:12]}}


def _diff(a, b):
    from collections import Counter
    c = Counter(b)
    out = []
    for x in a or []:
        if c[x] > 0:
            c[x] -= 1
        else:
            out.append(x)
    return out[:3]

"""C20 — key and circle-of-fifths tables.  The contracts on Key.transpose_key and the three CircleOfFifths
static methods are driven over the COMPLETE finite domains; arithmetic reference in oracle.py."""
from vmon import gen
from vmon import oracle as orc
from vmon.checks.common import fail

PROP = "C20"
MONITORS = ["transpose", "theory"]
EXHAUSTIVE = True
INSITU = {"k": "music_theory or transpose or tokenisation"}
RULE = ("complete enumeration at run time under the contracts: 15 keys x intervals -36..36 and all residues beyond +-96, +-120, +-132, +-240, +-1200, +-65532 (returns a Key, tonic and scale "
        "shifted mod 12), all 15 x 73 x 73 composition pairs (additivity), every key's note set is a major scale on its "
        "tonic, all 128 x 128 pitch pairs (distance range / congruence / from_distance), get_position for 0..127. Every "
        "domain element is a distinct case; all are non-trivial. The key / scale and circle-of-fifths enumerations are repeated in "
        "a process that has used the tables first (key guessing, transposition of sequences and bars with keys, bar splitting, token annotation).")
PLAN = {"quick": {"cases": 0, "jobs": 2, "timeout": 600}, "thorough": {"cases": 0, "jobs": 4, "timeout": 1200}}
FLOORS = {"transpose_key.returns_key.armed": 3000, "cof.distance_range.armed": 16384, "cof.from_distance.armed": 16384,
          "cof.position.armed": 128, "c20.compositions": 79935, "c20.major_scale": 30, "c20.table_consumers_exercised": 100}
TONIC = {"C": 0, "G": 7, "D": 2, "A": 9, "E": 4, "B": 11, "F#": 6, "C#": 1, "F": 5, "Bb": 10, "Eb": 3, "Ab": 8, "Db": 1,
         "Gb": 6, "Cb": 11}


def make_case(rng, i, tier):  # pragma: no cover - no random cases
    return {}


def run(case, ctx):  # pragma: no cover
    return {"nontrivial": False}


def _keys(ctx):
    from vmon.monitors import LOG
    from scoda.misc.music_theory import Key, MusicMapping
    fails, hashes, n = [], [], 0
    keys = list(Key)
    if sorted(k.value for k in keys) != sorted(TONIC):
        fails.append(dict(fail("key_set", [k.value for k in keys]), case={"phase": "keys"}))
    for k in keys:
        sc = MusicMapping.KeyNoteMapping[k][0]
        LOG.n("c20.major_scale")
        tonic = sc[0].value
        if frozenset(x.value for x in sc) != orc.major(tonic) or len(sc) != 7 or tonic != TONIC[k.value]:
            fails.append(dict(fail("major_scale_on_tonic", (k.value, [x.value for x in sc])), case={"phase": "keys", "key": k.value}))
        for iv in list(range(-36, 37)) + [s_ * (m + r_) for m in (96, 120, 132, 240, 1200, 65532) for r_ in range(12) for s_ in (1, -1)]:
            r = Key.transpose_key(k, iv)      # judged by the contract (returns_key / tonic_shift / scale_shift)
            n += 1
            hashes.append(gen.chash(["tk", k.value, iv]))
    # "any integer": intervals that are integers without being the builtin int (named intervals of an IntEnum, bools, numpy integers)
    import enum
    import numpy as np
    Named = enum.IntEnum("Named", {f"I{j + 30}": j for j in range(-30, 31) if j != 0})
    for k in keys:
        others = list(Named) + [True, False] + [np.int64(j) for j in range(-25, 26)] + [np.int32(j) for j in (-13, -7, -1, 1, 5, 7, 11, 12, 14)] + \
                 [np.int8(j) for j in (-11, 3, 6)] + [np.uint8(j) for j in (1, 6, 200)]
        for iv in others:
            r = Key.transpose_key(k, iv)      # the contract accepts every numbers.Integral
            n += 1
            LOG.n("c20.interval_of_another_integer_type")
            hashes.append(gen.chash(["tk", k.value, type(iv).__name__, int(iv)]))
            if isinstance(r, Key) and TONIC[r.value] != (TONIC[k.value] + int(iv)) % 12:
                fails.append(dict(fail("tonic_shift_for_integer_of_another_type", (k.value, repr(iv), r.value)), case={"phase": "keys", "key": k.value}))
    return {"evaluations": n, "hashes": hashes, "fails": fails[:8], "shapes": {"transpose_key": n},
            "samples": [{"key": "Gb", "interval": -12, "result": getattr(Key.transpose_key(Key("Gb"), -12), "value", None)}]}


def _compose(ctx):
    from vmon.monitors import LOG
    from scoda.misc.music_theory import Key
    fails, n = [], 0
    for k in Key:
        for a in range(-36, 37):
            ka = Key.transpose_key(k, a)
            for b in range(-36, 37):
                n += 1
                LOG.n("c20.compositions")
                if not isinstance(ka, Key):
                    continue  # already reported by the contract
                kab = Key.transpose_key(ka, b)
                direct = Key.transpose_key(k, a + b)
                if not (isinstance(kab, Key) and isinstance(direct, Key) and TONIC[kab.value] == TONIC[direct.value]):
                    if len(fails) < 5:
                        fails.append(dict(fail("additive_composition", (k.value, a, b, getattr(kab, "value", None), getattr(direct, "value", None))),
                                          case={"phase": "compose", "key": k.value, "a": a, "b": b}))
    return {"evaluations": n, "hashes": [gen.chash(["compose", n])], "fails": fails, "shapes": {"compose": n}}


def _cof(ctx):
    from scoda.misc.music_theory import CircleOfFifths as C
    fails, hashes, n = [], [], 0
    for a in range(128):
        C.get_position(a)
        for b in range(128):
            d = C.get_distance(a, b)              # contracts: range, congruence
            r = C.from_distance(a, d)             # contract: lands on the right pitch class
            n += 1
            hashes.append((a << 8) | b)
            if r != b % 12 and len(fails) < 5:
                fails.append(dict(fail("from_distance_lands_on_b", (a, b, d, r)), case={"phase": "cof", "a": a, "b": b}))
    for a in range(12):
        for d in range(-13, 14):
            C.from_distance(a, d)
    return {"evaluations": n, "hashes": hashes, "fails": fails, "shapes": {"cof_pairs": n},
            "samples": [{"a": 60, "b": 66, "distance": C.get_distance(60, 66), "from_distance": C.from_distance(60, C.get_distance(60, 66))}]}


def _after_use(ctx):
    """The tables are module-level objects shared by the whole process: after the library has USED them (key guessing, loading
    key signatures, transposing sequences and bars with keys, annotating tokens) they must still say what they said before."""
    import random
    from vmon.monitors import LOG
    from scoda.elements.bar import Bar
    from scoda.misc.music_theory import Key
    from scoda.sequences.sequence import Sequence
    from scoda.tokenisation.notelike_tokenisation import MultiTrackLargeVocabularyNotelikeTokeniser as Tok
    rnd = random.Random(f"{ctx.seed}:C20:after_use")
    used = 0
    for k in range(60):
        notes = gen.wf_notes(rnd, rnd.randint(1, 8), chans=(0,), pitches=tuple(rnd.sample(range(40, 90), 5)), tmax=90, lmin=2, lmax=24)
        extra = [["ks", 0, rnd.choice(gen.KEYS)]] if k % 3 == 0 else ([["ks", 24, rnd.choice(gen.KEYS)]] if k % 3 == 1 else [])
        s = gen.build_seq({"notes": notes, "extra": extra, "pad": 96, "start": rnd.choice(["abs", "rel", "both"])})
        try:
            s.rel.get_key_signature_guess()
            used += 1
        except Exception as e:   # a crash here is not C20's business, the state of the tables afterwards is
            LOG.n(f"c20.observed.key_guess_raises.{type(e).__name__}")
        s.transpose(rnd.choice([1, -1, 5, 7, 12, -13]))
        b = Bar(s.copy(), 8, 4, Key(rnd.choice(gen.KEYS)))    # 192 ticks: long enough for every generated sequence
        b.transpose(rnd.choice([2, -2, 6]))
        for q in Sequence.sequences_split_bars([s.copy()], 0)[0]:
            q.sequence.rel.get_key_signature_guess()
            used += 1
    tok = Tok(num_tracks=1)
    tok.get_info(tok.tokenise([gen.build_seq({"notes": [[0, 60 + j, 12 * j, 12, 80] for j in range(8)], "extra": [], "pad": 96})]))
    LOG.n("c20.table_consumers_exercised", used)
    a = _keys(ctx)
    c = _cof(ctx)
    fails = [dict(f, case=dict(f.get("case", {}), phase="after_use", after="key guessing / transposition / bar splitting / annotation"))
             for f in a["fails"] + c["fails"]]
    return {"evaluations": a["evaluations"] + c["evaluations"], "hashes": [gen.chash(["after_use", a["evaluations"], c["evaluations"]])],
            "fails": fails, "shapes": {"after_use": used}}


def phases(tier):
    return [("keys", _keys), ("compose", _compose), ("cof", _cof), ("after_use", _after_use)]

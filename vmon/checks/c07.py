"""C07 — normalise.  Deciding oracle: post-contract on the real RelativeSequence.normalise_relative (so every
internal call is judged too); the driver adds the idempotence differential on a copy."""
from vmon import gen
from vmon import oracle as orc
from vmon.checks.common import wrapper_agrees, obs, fail, random_prefix, apply_prefix

REJECTED = "prefix"    # worker: every thirteenth case starts with a call the library rejects (common.apply_prefix "rejected")
SCALE = True   # worker: every fortieth case is blown up by scale_case below
PROP = "C07"
MONITORS = ["normalise"]
INSITU = {"k": ""}
RULE = ("seeded relative message soups: (a) ill-formed (unclosed, re-triggered, orphaned, nested notes on channels 0-2, "
        "pitch values drawn from {0,1,2} and ordinary pitches so pitch==channel coincidences occur both ways, repeated "
        "signatures, trailing rests) and (b) paired-but-overlapping/nested families; the contract on the real "
        "normalise_relative decides alternation / duration / repeated signatures / sound-if-paired, the driver decides "
        "idempotence on canonical events. Non-trivial: the output differs from the input.")
PLAN = {"quick": {"cases": 8000, "jobs": 4, "timeout": 600},
        "thorough": {"cases": 2000000, "jobs": 16, "timeout": 3000, "budget_s": 360}}
FLOORS = {"quick": {"normalise.alternation.armed": 8000, "normalise.sound_if_paired.armed": 2500, "c07.unclosed_input": 800,
                    "c07.orphan_input": 800},
          "thorough": {"normalise.alternation.armed": 200000, "normalise.sound_if_paired.armed": 60000}}
PITCHSETS = [(0, 1, 60, 61), (0, 1, 2), (60, 61), (1, 2, 3, 64), (2, 64)]


def make_zero_length_case(rng, i):
    """paired input with notes of length zero (note-on directly followed by its note-off) placed inside, at the start of, and
    exactly on the final tick of a longer note of the same key, and on their own"""
    c, k = rng.choice([0, 1]), rng.choice([60, 61])
    a1, a2, b = rng.randint(1, 20), rng.randint(0, 20), rng.randint(0, 20)
    where = rng.choice(["final_tick", "final_tick", "inside", "start", "alone", "other_key_on_final_tick"])
    zero = [["on", c, k, 33], ["off", c, k]]
    msgs = [["on", c, k, 90]]
    if where == "start":
        msgs += zero
    msgs.append(["wait", a1])
    if where == "inside":
        msgs += zero + [["wait", a2 + 1]]
    if where == "final_tick":
        msgs += zero
    if where == "other_key_on_final_tick":
        msgs += [["on", c, k + 5, 33], ["off", c, k + 5]]
    msgs.append(["off", c, k])
    if where == "alone":
        msgs += [["wait", 3]] + zero
    if b:
        msgs.append(["wait", b])
    if rng.random() < 0.5:
        msgs += [["on", 1 - c, 64, 70], ["wait", 6], ["off", 1 - c, 64]]
    return {"msgs": msgs, "paired": True, "prefix": [], "zero_length": where}


def scale_case(case, i):
    import random
    r = random.Random(f"c07-big:{i}")
    shape = ["strikes_without_release", "deeply_nested", "big_paired", "big_damaged"][(i // 40) % 4]
    c, p = r.choice([0, 9]), r.choice([38, 60])
    if shape == "strikes_without_release":
        # a drum line that never sends note-offs: hundreds of strikes of one key left open
        msgs = []
        for k in range(r.choice([300, 520, 700])):
            msgs += [["on", c, p, 1 + k % 127], ["wait", r.choice([2, 3, 6])]]
        msgs += [["on", c, p + 1, 5], ["wait", 4], ["off", c, p + 1]]
    elif shape == "deeply_nested":
        n = r.choice([300, 400])
        msgs = []
        for k in range(n):
            msgs += [["on", c, p, 1 + k % 127], ["wait", 2]]
        for k in range(n):
            msgs += [["off", c, p], ["wait", 1]]
    else:
        msgs = gen.msgs_from_notes(gen.big_notes(i, chans=(0, 1), pitches=(60, 61, 62), lmin=1, lmax=30, gap=(0, 20)))
        if shape == "big_damaged":
            for _ in range(20):
                del msgs[r.randrange(len(msgs))]
    case.update({"msgs": msgs, "paired": shape in ("deeply_nested", "big_paired"), "prefix": [], "big": shape})
    case.pop("motif_times", None)
    case.pop("zero_length", None)
    case.pop("unison", None)

def make_unison_case(rng, i):
    """doubled voices on one channel: two (or three) paired notes of ONE key struck on the same tick -- with the same velocity in two
    thirds of the cases -- and released on different ticks (one staccato, one legato), their note-ons adjacent in the stream"""
    c, k = rng.choice([0, 1, 2]), rng.choice([60, 61, 67])
    v = rng.randint(1, 127)
    mode = (i // 17) % 3
    v2 = v if mode != 2 else (v % 127) + 1
    l1 = rng.randint(1, 24)
    l2 = l1 + rng.randint(1, 24) if mode != 1 or rng.random() < 0.5 else l1
    t0 = rng.choice([0, 0, 5, 24])
    msgs = [["wait", t0]] if t0 else []
    msgs += [["on", c, k, v], ["on", c, k, v2]]
    third = rng.random() < 0.3
    if third:
        msgs.append(["on", c, k, v])
    msgs.append(["wait", l1])
    msgs.append(["off", c, k])
    if rng.random() < 0.3:
        msgs += [["on", (c + 1) % 3, k, 50], ["wait", 2], ["off", (c + 1) % 3, k]]
        l2 = max(l2, l1 + 2)
        msgs.append(["wait", l2 - l1 - 2]) if l2 - l1 - 2 > 0 else None
    elif l2 > l1:
        msgs.append(["wait", l2 - l1])
    msgs.append(["off", c, k])
    if third:
        msgs += [["wait", 3], ["off", c, k]]
    if rng.random() < 0.5:
        msgs.append(["wait", rng.randint(1, 20)])
    return {"msgs": [m for m in msgs if m], "paired": True, "prefix": [], "unison": mode}


def make_case(rng, i, tier):
    if i % 14 == 6:
        return make_zero_length_case(rng, i)
    if i % 17 == 11:
        return make_unison_case(rng, i)
    chans = rng.choice([(0,), (0, 1), (0, 1, 2), (1, 2)])
    pitches = rng.choice(PITCHSETS)
    msgs = []
    paired = rng.random() < 0.45
    if paired:
        ev = []
        for _ in range(rng.randint(0, 8)):
            c, p = rng.choice(chans), rng.choice(pitches)
            on, ln = rng.randrange(0, 50), rng.randint(1, 30)
            ev.append((on, 2, ["on", c, p, rng.randint(1, 127)]))
            ev.append((on + ln, 0, ["off", c, p]))
        for _ in range(rng.randint(0, 3)):
            if rng.random() < 0.6:
                ev.append((rng.randrange(0, 60), 1, rng.choice([["ts", 3, 4], ["ts", 4, 4], ["ts", 8, 8]])))
            else:
                ev.append((rng.randrange(0, 60), 1, ["ks", rng.choice(["C", "G"])]))
        ev.sort(key=lambda e: (e[0], e[1]))
        t = 0
        for tt, _, m in ev:
            if tt > t:
                # sometimes split a wait in two (wait consolidation)
                if tt - t > 1 and rng.random() < 0.2:
                    a = rng.randrange(1, tt - t)
                    msgs.append(["wait", a])
                    msgs.append(["wait", tt - t - a])
                else:
                    msgs.append(["wait", tt - t])
                t = tt
            msgs.append(m)
        if rng.random() < 0.5:
            msgs.append(["wait", rng.randint(1, 20)])
    else:
        for _ in range(rng.randint(0, 16)):
            k = rng.random()
            c, p = rng.choice(chans), rng.choice(pitches)
            if k < 0.3:
                msgs.append(["wait", rng.randint(1, 10)])
            elif k < 0.58:
                msgs.append(["on", c, p, rng.randint(1, 127)])
            elif k < 0.86:
                msgs.append(["off", c, p])
            elif k < 0.93:
                msgs.append(rng.choice([["ts", 3, 4], ["ts", 4, 4], ["ts", 8, 8]]))
            elif k < 0.97:
                msgs.append(["ks", rng.choice(["C", "G", "F#"])])
            else:
                msgs.append(["cc", c, 7, rng.randint(1, 100)])
    if i % 3 == 1:
        # signature messages carry a channel like every other message (set_channel rewrites it, merged tracks bring their own):
        # a signature governs the whole sequence whichever channel number its message has
        import random
        r2 = random.Random(f"c07-sigchan:{i}")
        for m in msgs:
            if m[0] in ("ts", "ks"):
                m.append(r2.choice(list(chans) + [0, 1, 5]))
        if r2.random() < 0.5:
            # a signature restated by another channel
            sig = [m for m in msgs if m[0] in ("ts", "ks")]
            if sig:
                m = list(r2.choice(sig))
                m[-1] = (m[-1] + 1) % 16
                msgs.insert(r2.randrange(msgs.index([x for x in msgs if x[:len(x) - 1] == m[:-1]][0]) + 1, len(msgs) + 1), m)
    prefix = [op for op in random_prefix(rng, n=(1, 2)) if op["op"] in ("copy", "read_abs", "read_rel", "set_channel", "pad", "scale", "iter_rel_velocity_edit", "transpose", "normalise", "concat_copy")] \
        if i % 5 == 4 else []
    if i % 10 == 9:
        # normalise, then an in-place edit (which may well make the sequence ill-formed again), then the call under test:
        # whatever normalise remembers from its first run is stale by then
        import random
        r3 = random.Random(f"c07-again:{i}")
        edit = r3.choice([{"op": "set_channel", "c": 0}, {"op": "set_channel", "c": 1},
                          {"op": "concat_copy", "notes": [[r3.choice(chans), r3.choice(pitches), 3 * j, 9, 60 + j] for j in range(r3.randint(1, 3))]},
                          {"op": "iter_rel_velocity_edit"}, {"op": "scale", "k": 2}, {"op": "pad", "n": 300},
                          {"op": "transpose", "k": r3.choice([1, -1, 12])}])
        prefix = [{"op": "normalise"}, edit]
    case = {"msgs": msgs, "paired": paired, "prefix": prefix}
    if i % 9 == 7 and not prefix:
        # the same motif joined by reference two to four times (the library's own concatenate and Bar.to_sequence share Message
        # objects): a legal sequence in which one wait / note Message object occurs at several positions
        case["motif_times"] = 2 + i % 3
    return case


def run(case, ctx):
    from vmon.monitors import LOG
    s = gen.raw_rel_seq(case["msgs"])
    if case.get("unison") is not None:
        LOG.n("c07.unison_doubled_note_input")
    if case.get("zero_length"):
        LOG.n("c07.zero_length_note_input")
    if case.get("motif_times"):
        from scoda.sequences.sequence import Sequence
        motif = s
        s = Sequence()
        s.concatenate([motif] * case["motif_times"])
        LOG.n("c07.motif_by_reference")
    s = apply_prefix(s, case.get("prefix", []))
    t0, d0 = orc.view_rel(s.rel)
    ev0 = orc.events(t0)
    pr0, _ = orc.automaton(t0)
    kinds = set(p[0] for p in pr0)
    for k in kinds:
        LOG.n(f"c07.{k}_input")
    n0 = len(s._rel._messages)
    twin = s.copy()
    s.normalise()
    t1, d1 = orc.view_rel(s.rel)
    ev1 = orc.events(t1)
    fails = []
    c = s.copy()
    c.normalise()
    t2, d2 = orc.view_rel(c.rel)
    if orc.events(t2) != ev1 or d2 != d1:
        fails.append(fail("idempotence", {"first": ev1[:6], "second": orc.events(t2)[:6], "d": (d1, d2)}))
    ta, da = orc.view_abs(s.abs)
    if orc.events(ta) != ev1 or da != d1:
        fails.append(fail("views_disagree_after_normalise", (da, d1)))

    def inner(t):
        t.rel.normalise_relative()
        t.invalidate_abs()
    fails += wrapper_agrees(twin, inner, obs(s), "normalise")
    return {"nontrivial": ev1 != ev0 or len(s.rel._messages) != n0, "fails": fails,
            "shape": (case["paired"], tuple(sorted(kinds)), len(set(m[1] for m in case["msgs"] if m[0] in ("on", "off")))),
            "observed": {"problems_in_input": sorted(kinds), "events_in": len(ev0), "events_out": len(ev1)}}


def _corpus_body(rng, k):
    from vmon import corpus
    desc, w = corpus.window(rng, min_len=24, max_len=600, normalise=False)
    # make it hostile: drop a random message so that unclosed / orphaned notes occur in real material
    msgs = w.rel._messages
    if msgs and rng.random() < 0.7:
        del msgs[rng.randrange(len(msgs))]
        w.invalidate_abs()
    t0, d0 = orc.view_rel(w.rel)
    ev0 = orc.events(t0)
    w.normalise()
    t1, d1 = orc.view_rel(w.rel)
    c = w.copy()
    c.normalise()
    t2, d2 = orc.view_rel(c.rel)
    if orc.events(t2) != orc.events(t1) or d2 != d1:
        from vmon.monitors import LOG
        LOG.rec("C07", "driver", "idempotence_on_corpus", False, desc)
    return desc, orc.events(t1) != ev0


def phases(tier):
    from vmon import corpus
    return [("corpus", corpus.phase(300, 20000, _corpus_body))]

"""C12 — save -> load returns the same music.  Differential monitor at the file boundary: the real
Sequence.sequences_save writes a MIDI file, the real Sequence.sequences_load reads it back, an independent observer
compares notes per track and the time/key signature in force at every tick; the written file is additionally
re-read with raw mido to attribute a mismatch to the writer or the reader."""
import os

from vmon import gen
from vmon import oracle as orc
from vmon.checks.common import obs, fail

SPLIT_WAITS = "seqs"   # worker: every fifth case is built from relative messages with rests split into adjacent waits
DEGEN = "seqs"    # worker: every 37th case gets degenerate operands (gen.degenerate)
SCALE = True   # worker: every fortieth case is blown up by scale_case below
PROP = "C12"
MONITORS = ["normalise", "merge", "conv"]
INSITU = None
TECHNIQUE = "runtime monitoring: differential observer across the real save/load pair (plus raw mido re-read) over seeded sequence lists"
RULE = ("seeded lists of 1-4 integer-tick sequences, well-formed after channel erasure (the writer emits channel 0), velocities "
        "1-127, time signatures (power-of-two denominators) and all 15 keys at arbitrary ticks on several carrier tracks but never "
        "two different signatures of one kind on one tick, simultaneous events, abutting notes, leading rests, empty sequences, "
        "control and program changes (also directly before a note after a rest); saved with the real sequences_save (a quarter of the cases: saved, edited in place through the public API, and saved again on the same objects) and re-loaded with the real sequences_load. Compared: sequence "
        "count/order, per-track (pitch, onset, duration, velocity) multisets, time signature in force (default 4/4) and key in "
        "force at every tick up to the end. Non-trivial: >= 2 notes and a signature or key.")
PLAN = {"quick": {"cases": 1200, "jobs": 4, "timeout": 600},
        "thorough": {"cases": 600000, "jobs": 16, "timeout": 3000, "budget_s": 360}}
FLOORS = {"quick": {"c12.tracks_compared": 2000, "c12.signature_cases": 600, "c12.key_cases": 600, "c12.raw_file_checked": 1000, "c12.program_change_cases": 150, "c12.saved_twice": 200},
          "thorough": {"c12.tracks_compared": 100000}}
SIGS = [(4, 4), (3, 4), (6, 8), (5, 4), (2, 2), (7, 8), (12, 8), (3, 16), (1, 1), (9, 8)]


def scale_case(case, i):
    sp = case["seqs"][0]
    ch = sp["notes"][0][0] if sp["notes"] else 0
    sp["notes"] = gen.big_notes(i, n=[200, 400, 900][(i // 40) % 3], chans=(ch,), pitches=(50, 52, 55, 57), lmin=1, lmax=40, gap=(0, 30))
    sp.pop("pad", None)
    case["again"] = None

def degen_case(case, i):
    # which of two different signatures saved on ONE tick by different sequences is "the one that was saved" is not defined by the
    # property (make_case never produces that either): a degenerate operand keeps only signatures no other operand contests
    seen = {}
    for k, sp in enumerate(case["seqs"]):
        if len({n[0] for n in sp["notes"]}) > 1 and len({n[1] for n in sp["notes"]}) < len(sp["notes"]):
            # the loader puts a file track on one channel; one pitch sounding on two channels at once is not a well-formed
            # single-channel track any more (same rule as in make_case: one channel per pitch)
            for n in sp["notes"]:
                n[0] = sp["notes"][0][0]
            sp["notes"] = [n for j, n in enumerate(sp["notes"]) if all(m[1] != n[1] for m in sp["notes"][:j])]
        keep = []
        for e in sp["extra"]:
            if e[0] in ("ts", "ks"):
                val = tuple(e[2:])
                if seen.setdefault((e[0], e[1]), val) != val:
                    continue
            keep.append(e)
        sp["extra"] = keep


def make_case(rng, i, tier):
    ntr = rng.randint(1, 4)
    seqs = []
    ts_ticks, ks_ticks = {}, {}
    for j in range(ntr):
        n = rng.choice([0, 1, 3, 6, 8])
        notes = gen.wf_notes(rng, n, chans=(0,), pitches=tuple(rng.sample(range(21, 109), 3)), tmax=150, lmin=1, lmax=40,
                             uniq_vel=False)
        if rng.random() < 0.3:
            # channels are not part of the claim; one channel per pitch keeps the equal-tick order (channel first,
            # then offs before ons) well-formed after channel erasure
            chan_of = {}
            notes = [[chan_of.setdefault(p, rng.choice([0, 1, 5])), p, on, ln, v] for (c, p, on, ln, v) in notes]
        if notes and rng.random() < 0.4:
            c, p, on, ln, v = notes[0]
            # abutting repeat of the same pitch (note-off and note-on share a tick)
            if all(not (x[1] == p and not (on + ln + 9 <= x[2] or on + ln >= x[2] + x[3])) for x in notes[1:]):
                notes.append([c, p, on + ln, 9, rng.randint(1, 127)])
        extra = []
        for _ in range(rng.randint(0, 2)):
            t = rng.choice([0, 0, rng.randrange(0, 170)])
            s = rng.choice(SIGS)
            if ts_ticks.get(t, s) == s:
                ts_ticks[t] = s
                extra.append(["ts", t, s[0], s[1]])
        for _ in range(rng.randint(0, 2)):
            t = rng.choice([0, rng.randrange(0, 170)])
            k = rng.choice(gen.KEYS)
            if ks_ticks.get(t, k) == k:
                ks_ticks[t] = k
                extra.append(["ks", t, k])
        if rng.random() < 0.45:
            # control changes are written to the file, program changes are not: neither may disturb the delta times
            # (placed on note onsets as well, i.e. directly before a note after a rest)
            ticks = [x[2] for x in notes] + [rng.randrange(0, 170) for _ in range(3)]
            extra += gen.rand_extras(rng, rng.randint(1, 3), 150, ticks=ticks, kinds=("cc", "pc", "pc"))
        spec = {"notes": notes, "extra": extra, "start": rng.choice(["abs", "rel", "both"])}
        if rng.random() < 0.25:
            spec["pad"] = rng.randrange(0, 250)
        seqs.append(spec)
    # history stratum: save, edit in place through the public API, save AGAIN on the same objects; the second file is the
    # one compared (a writer-side cache that survives an edit shows here)
    again = None
    if i % 4 == 3:
        again = [{"op": rng.choice(["transpose", "scale", "set_channel", "iter_rel_velocity_edit", "pad", "add_note"]),
                  "k": rng.choice([1, 2, -3, 5]), "s": rng.randrange(len(seqs))} for _ in range(rng.randint(1, 2))]
    if i % 6 == 4 and len(seqs) >= 2:
        # every track restates the piece's signatures (as Composition / bar-wise output does): the same signature, same values, on
        # the same tick > 0 in several saved sequences, often right after a rest
        sig = [e for sp in seqs for e in sp["extra"] if e[0] in ("ts", "ks") and e[1] > 0][:2]
        if not sig and not any(e[0] == "ts" for sp in seqs for e in sp["extra"]):
            sig = [["ts", 48 + 24 * (i % 5), 3, 4]]
        for e in sig:
            for sp in seqs:
                if not any(x[0] == e[0] and x[1] == e[1] for x in sp["extra"]):
                    sp["extra"].append(list(e))
    if i % 9 == 4:
        # "integer-tick" sequences whose ticks are numpy integers (onsets computed with np.arange / np.cumsum)
        for sp in seqs:
            sp["np_ticks"] = ["int64", "int32"][(i // 9) % 2]
    return {"seqs": seqs, "again": again}


def _erase(notes):
    return sorted((p, on, d, v) for (c, p, on, d, v) in notes)


def run(case, ctx):
    import mido
    from vmon.monitors import LOG
    from scoda.sequences.sequence import Sequence
    seqs = [gen.build_seq(s) for s in case["seqs"]]
    fails = []
    if case.get("again"):
        from scoda.elements.message import Message
        from scoda.enumerations.message_type import MessageType as MT
        p0 = os.path.join(ctx.scratch, f"c12a_{os.getpid()}.mid")
        try:
            Sequence.sequences_save(seqs, p0)
        finally:
            if os.path.exists(p0):
                os.remove(p0)
        LOG.n("c12.saved_twice")
        shift = 0
        for op in case["again"]:
            q = seqs[op["s"] % len(seqs)]
            if op["op"] == "transpose":
                # applied to every sequence alike and only when nothing wraps: keeps the input inside the property's scope
                # (well-formed after channel erasure, one key per tick over all carriers)
                allp = [n[1] + shift for sq in case["seqs"] for n in sq["notes"]]
                if all(21 <= pp + op["k"] <= 108 for pp in allp):
                    shift += op["k"]
                    for x in seqs:
                        x.transpose(op["k"])
            elif op["op"] == "scale":
                for x in seqs:
                    x.scale(abs(op["k"]) + 1, quantise_afterwards=False)
            elif op["op"] == "set_channel":
                q.set_channel(abs(op["k"]))
            elif op["op"] == "iter_rel_velocity_edit":
                for m in q.messages_rel():
                    if m.message_type == MT.NOTE_ON:
                        m.velocity = (m.velocity % 127) + 1
            elif op["op"] == "pad":
                q.pad(400)
            else:
                d = obs(q)["dur"]
                q.add_absolute_message(Message(message_type=MT.NOTE_ON, note=20 + abs(op["k"]), velocity=77, time=d + 3))
                q.add_absolute_message(Message(message_type=MT.NOTE_OFF, note=20 + abs(op["k"]), time=d + 9))
    pre = [obs(s) for s in seqs]
    path = os.path.join(ctx.scratch, f"c12_{os.getpid()}.mid")
    try:
        # entry points: the static function, the single-sequence method (which delegates to it) and a pathlib path
        if len(seqs) == 1 and case["seqs"][0].get("start") != "both":
            LOG.n("c12.saved_through_sequence_method")
            seqs[0].save(path)
        elif len(seqs) % 2 == 0:
            import pathlib
            Sequence.sequences_save(seqs, pathlib.Path(path))
        else:
            Sequence.sequences_save(seqs, path)
        out = Sequence.sequences_load(path)
        raw = mido.MidiFile(path)
    finally:
        if os.path.exists(path):
            os.remove(path)
    exp_notes = [_erase(p["notes"]) for p in pre]
    horizon = max([p["dur"] for p in pre] + [1]) + 5
    ts_all = [(e[0], (e[5], e[6])) for p in pre for e in p["non"] if e[1] == orc.TS]
    ks_all = [(e[0], e[7]) for p in pre for e in p["non"] if e[1] == orc.KS]
    exp_ts = orc.step_fn(ts_all, (4, 4), horizon)
    exp_ks = orc.step_fn(ks_all, "", horizon)
    if len(out) != len(seqs):
        fails.append(fail("sequence_count", (len(seqs), len(out))))
    else:
        for k, (e, o) in enumerate(zip(exp_notes, out)):
            LOG.n("c12.tracks_compared")
            oo = obs(o)
            got = _erase(oo["notes"])
            if got != e or oo["problems"]:
                fails.append(fail("track_notes", {"track": k, "missing": [x for x in e if x not in got][:3],
                                                  "extra": [x for x in got if x not in e][:3], "problems": oo["problems"][:2]}))
        m = obs(out[0])
        got_ts = orc.step_fn([(e[0], (e[5], e[6])) for e in m["non"] if e[1] == orc.TS], (4, 4), horizon)
        got_ks = orc.step_fn([(e[0], e[7]) for e in m["non"] if e[1] == orc.KS], "", horizon)
        if got_ts != exp_ts:
            fails.append(fail("time_signature_in_force", {"expected": exp_ts[:5], "got": got_ts[:5]}))
        if got_ks != exp_ks:
            fails.append(fail("key_in_force", {"expected": exp_ks[:5], "got": got_ks[:5]}))
        for k, o in enumerate(out[1:], 1):
            if any(e[1] in (orc.TS, orc.KS) for e in obs(o)["non"]):
                fails.append(fail("signature_outside_meta_sequence", k))
    # raw re-read of the written file: attributes a mismatch to the writer (file wrong) or the reader
    LOG.n("c12.raw_file_checked")
    if raw.ticks_per_beat != 24 or len(raw.tracks) != len(seqs):
        fails.append(fail("writer.file_header", (raw.ticks_per_beat, len(raw.tracks))))
    else:
        for k, (trk, p) in enumerate(zip(raw.tracks, pre)):
            t = 0
            onoff = []
            sig = []
            for msg in trk:
                t += msg.time
                if msg.type == "note_on" and msg.velocity > 0:
                    onoff.append((t, 1, msg.note, msg.velocity))
                elif msg.type in ("note_off", "note_on"):
                    onoff.append((t, 0, msg.note, 0))
                elif msg.type == "time_signature":
                    sig.append((t, "ts", (msg.numerator, msg.denominator)))
                elif msg.type == "key_signature":
                    sig.append((t, "ks", msg.key))
            want = sorted([(on, 1, pp, v) for (c, pp, on, d, v) in p["notes"]] + [(on + d, 0, pp, 0) for (c, pp, on, d, v) in p["notes"]])
            if sorted(onoff) != want:
                fails.append(fail("writer.note_events_in_file", {"track": k, "missing": [x for x in want if x not in onoff][:3],
                                                                  "extra": [x for x in onoff if x not in want][:3]}))
            wsig = sorted([(e[0], "ts", (e[5], e[6])) for e in p["non"] if e[1] == orc.TS] + [(e[0], "ks", e[7]) for e in p["non"] if e[1] == orc.KS])
            if sorted(sig) != wsig:
                fails.append(fail("writer.signature_events_in_file", {"track": k, "want": wsig[:4], "file": sorted(sig)[:4]}))
    nn = sum(len(e) for e in exp_notes)
    if any(sq.get("np_ticks") for sq in case["seqs"]):
        LOG.n("c12.numpy_tick_cases")
    if ts_all:
        LOG.n("c12.signature_cases")
    if ks_all:
        LOG.n("c12.key_cases")
    if any(e[0] == "pc" for sq in case["seqs"] for e in sq["extra"]):
        LOG.n("c12.program_change_cases")
    return {"nontrivial": nn >= 2 and bool(ts_all or ks_all), "fails": fails,
            "shape": (len(seqs), min(nn, 10), len(ts_all), len(ks_all)),
            "observed": {"tracks": len(seqs), "notes": nn, "ts_in_force": exp_ts[:4], "key_in_force": exp_ks[:4]}}

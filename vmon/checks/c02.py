"""C02 — the vocabulary is closed under tokenise; encode/decode are inverse bijections.  Per configuration the whole
vocabulary is ENUMERATED at run time (bijection, size, round trips, detokenise/get_info acceptance, structural
reference); the closure side is the post-contract on the real tokenise, armed on every tokenise call of a valid-piece
workload run under the same configuration."""
from vmon import gen
from vmon import oracle as orc
from vmon.checks import tokcommon as tc
from vmon.checks.common import obs, fail

TRACK_CHANNELS = "pieces"   # worker: every fourth case moves each track's notes to another channel
SCALE_EVERY = 17
SCALE = True   # worker: every fortieth case (or SCALE_EVERY-th) is blown up by scale_case below
PROP = "C02"
MONITORS = ["tokenise"]
EXHAUSTIVE = False
INSITU = {"k": "tokenisation"}
TECHNIQUE = "runtime monitoring: complete run-time enumeration of each configuration's vocabulary + closure contract on the real tokenise"
RULE = ("configurations from the lattice 16 flag combinations x velocity bins {1,2,3,4,5,8,16,32,127 and irregular counts} x "
        "tracks 1-4 x 5 pitch ranges x 7 note-value sets x 6 step-size sets x 4 time-signature ranges; each is followed by a sibling configuration differing in exactly one parameter built in the same process; for each the COMPLETE vocabulary is enumerated "
        "(ids are exactly 0..size-1, reported size, decode(encode(t)) and encode(decode(i)) for every member, detokenise and "
        "get_info accept every member, key set equals the structural reference built from the configuration) and 4 valid "
        "pieces are tokenised under the closure contract. Irregular bin counts form a separate stratum (known finding). "
        "A configuration is non-trivial when its whole vocabulary was enumerated; distinct by parameters.")
PLAN = {"quick": {"cases": 320, "jobs": 4, "timeout": 900},
        "thorough": {"cases": 170000, "jobs": 16, "timeout": 3000, "budget_s": 360}}
FLOORS = {"quick": {"c02.tokens_enumerated": 250000, "tokenise.closure.armed": 600, "#c02.flags.": 16, "c02.configurations": 280, "c02.sibling_configurations": 200},
          "thorough": {"c02.tokens_enumerated": 10000000, "#c02.flags.": 16}}


def scale_case(case, i):
    """numeric token fields with four and more digits: a high-resolution tokeniser (ppqn 480 / 960) with long note values and steps"""
    q = [480, 960, 120][(i // 16) % 3]
    cfg = case["cfg"]
    cfg.update(ppqn=q, steps=[q // 8, q // 4, q // 2, q, 2 * q, 4 * q], values=[q // 4, q // 2, q, 2 * q, 4 * q, 6 * q],
               pitch=[60, 63], bins=min(cfg["bins"], 4) if cfg["bins"] in (1, 2, 3, 4) else 1)
    case["pieces"] = []          # (pieces are laid out for the library resolution; the vocabulary side is what is enumerated here)
    case["sibling"] = None
    case["stratum"] = "R"

def make_case(rng, i, tier):
    irregular = (i % 8 == 7)
    bins = rng.choice(tc.BINS_IRREGULAR) if irregular else rng.choice([1, 2, 3, 4, 5, 8, 16, 32, 127])
    cfg = tc.rand_cfg(rng, i=i % 16, bins=bins)
    size = (cfg["pitch"][1] - cfg["pitch"][0] + 1) * (cfg["tracks"] if cfg["flags"][1] else 1) * \
        (len(tc.values_of(cfg)) if cfg["flags"][2] else 1) * (bins if cfg["flags"][3] else 1)
    if size > 60000:
        cfg["pitch"] = [60, 60 + max(0, 60000 // max(1, size // (cfg["pitch"][1] - cfg["pitch"][0] + 1)) - 1)]
        cfg["pitch"][1] = max(cfg["pitch"][0], min(cfg["pitch"][1], 127))
    cfg["tsr"] = rng.choice([[2, 16], [2, 16], [1, 16], [2, 24], [4, 12]])
    # a sibling configuration differing in exactly one parameter, constructed right after the first one in the same process
    # (a vocabulary cache keyed too coarsely would hand the sibling the wrong vocabulary)
    sib = dict(cfg, flags=list(cfg["flags"]), pitch=list(cfg["pitch"]))
    which = rng.choice(["tsr", "tsr", "pitch", "steps", "values", "tracks", "flag", "bins"])
    if which == "tsr":
        sib["tsr"] = rng.choice([x for x in ([2, 16], [1, 16], [2, 24], [4, 12], [2, 20]) if x != cfg["tsr"]])
    elif which == "pitch":
        sib["pitch"] = [cfg["pitch"][0], min(127, cfg["pitch"][1] + 1)] if cfg["pitch"][1] < 127 else [cfg["pitch"][0] + 1, 127]
    elif which == "steps":
        sib["steps"] = rng.choice([x for x in tc.STEPSETS if x != cfg["steps"]])
    elif which == "values":
        sib["values"] = rng.choice([x for x in tc.VALUESETS if x != cfg["values"]])
    elif which == "tracks":
        sib["tracks"] = cfg["tracks"] % 4 + 1
    elif which == "flag":
        k = rng.randrange(1, 4)
        sib["flags"][k] = not sib["flags"][k]
    elif which == "bins" and not irregular:
        sib["bins"] = rng.choice([b for b in (1, 2, 3, 4, 5, 8, 16) if b != cfg["bins"]])
    pieces = []
    if not irregular:
        for _ in range(4):
            pieces.append(tc.valid_piece(rng, cfg, stratum="A" if _ < 3 else "B", nseg=(1, 2), nbars=(1, 2), max_notes=5))
    if not irregular and i % 5 == 2:
        # whole-bar rest tokens: a step size as long as a bar (among them the longest bar the signature range admits), pieces in
        # exactly those signatures with few notes, so that bars are silent from the bar line on (own random stream)
        import random
        r6 = random.Random(f"c02-bar-steps:{i}")
        hi_ts = cfg["tsr"][1]
        longest = [sg for sg in tc.SIGS_OK if 8 * sg[0] // sg[1] == hi_ts and 8 * sg[0] % sg[1] == 0]
        pick = (longest + [(4, 4), (3, 4), (6, 8)])[: 1 + (i // 5) % 3] if longest else [(4, 4), (3, 4)][: 1 + (i // 5) % 2]
        pick = [sg for sg in pick if cfg["tsr"][0] <= 8 * sg[0] // sg[1] <= hi_ts] or [(4, 4)]
        cfg["steps"] = sorted(set(tc.steps_of(cfg) + [96 * sg[0] // sg[1] for sg in pick]))
        if sib.get("steps") == cfg["steps"]:
            sib["steps"] = None
        elif which != "steps":
            sib["steps"] = list(cfg["steps"])
        pieces = [tc.valid_piece(r6, cfg, stratum="A" if k < 3 else "B", nseg=(1, 2), nbars=(1, 3), max_notes=2, only_sigs=pick) for k in range(4)]
    return {"cfg": cfg, "pieces": pieces, "stratum": "V" if irregular else "R", "sibling": None if irregular else sib, "sibling_differs_in": which,
            "rejected_first": tc.REJECTED_CONSTRUCTORS[(i // 3) % len(tc.REJECTED_CONSTRUCTORS)] if (i % 3 == 1 and not irregular) else None}


def classify(f, case):
    if case.get("stratum") == "V" and f.get("claim") in ("ids_are_0_to_size_minus_1", "reported_size", "structural_reference",
                                                           "inverse_dictionary"):
        w = f.get("w") if isinstance(f.get("w"), dict) else {}
        if w.get("duplicate_clipped_edges"):
            return "irregular_velocity_bin_count"
    return None


def run(case, ctx):
    from vmon.monitors import LOG
    cfg = case["cfg"]
    fails = []
    if case.get("rejected_first"):
        # a constructor call with an equal-looking configuration that the tokeniser rejects comes first (same process)
        r = tc.rejected_constructor(cfg, case["rejected_first"])
        LOG.n(f"c02.rejected_constructor.{'raised' if r else 'accepted'}.{case['rejected_first']}")
    try:
        tok = tc.make_tok(cfg, cache=False)
    except Exception as e:
        return {"nontrivial": False, "fails": [fail("tokeniser_construction_raises", f"{type(e).__name__}: {e}")], "shape": ("ctor",)}
    LOG.n("c02.configurations")
    LOG.n("c02.flags." + "".join("1" if x else "0" for x in cfg["flags"]))
    d, inv = tok.dictionary, tok.inverse_dictionary
    bins = list(tok.velocity_bins)
    ibins = [int(b) for b in bins]
    dupw = {"duplicate_clipped_edges": len(set(ibins)) != len(ibins), "bins": cfg["bins"]}
    n = len(d)
    vals = sorted(d.values())
    if vals != list(range(n)) or not all(type(v) is int for v in vals):
        fails.append(fail("ids_are_0_to_size_minus_1", None, w=dict(dupw, n=n, first_gap=next((i for i, v in enumerate(vals) if i != v), None))))
    if tok.dictionary_size != n:
        fails.append(fail("reported_size", None, w=dict(dupw, reported=tok.dictionary_size, entries=n)))
    if len(inv) != n or any(inv.get(v) != k for k, v in d.items()):
        fails.append(fail("inverse_dictionary", None, w=dict(dupw)))
    exp = tc.expected_vocabulary(cfg, bins)
    if set(exp) != set(d) or len(exp) != len(set(exp)):
        fails.append(fail("structural_reference", None, w=dict(dupw, missing=sorted(set(exp) - set(d))[:4], unexpected=sorted(set(d) - set(exp))[:4],
                                                               duplicates_in_reference=len(exp) - len(set(exp)))))
    bad_rt, bad_detok, bad_info = [], [], []
    for t, i in d.items():
        try:
            if tok.decode(tok.encode([t])) != [t] or tok.encode(tok.decode([i])) != [i]:
                bad_rt.append(t)
        except Exception as e:
            bad_rt.append((t, type(e).__name__))
        try:
            out = tok.detokenise([t])
            if len(out) != cfg["tracks"]:
                bad_detok.append((t, "tracks"))
        except Exception as e:
            bad_detok.append((t, f"{type(e).__name__}: {str(e)[:60]}"))
        try:
            info = tok.get_info([t])
            if any(len(v) != 1 for v in info.values()):
                bad_info.append((t, "length"))
        except Exception as e:
            bad_info.append((t, f"{type(e).__name__}: {str(e)[:60]}"))
    LOG.n("c02.tokens_enumerated", n)
    if bad_rt:
        fails.append(fail("encode_decode_round_trip", bad_rt[:4]))
    if bad_detok:
        fails.append(fail("detokenise_accepts_every_member", {"count": len(bad_detok), "examples": bad_detok[:3]}))
    if bad_info:
        fails.append(fail("get_info_accepts_every_member", {"count": len(bad_info), "examples": bad_info[:3]}))
    # closure side: tokenise valid pieces under this configuration (the contract on tokenise judges each call)
    ntok = 0
    for pc in case["pieces"]:
        if pc is None:
            continue
        seqs = [gen.build_seq(t) for t in pc["tracks"]]
        try:
            toks = tok.tokenise(seqs)
            ntok += len(toks)
            if any(t.startswith("rst_") and t[4:].isdigit() and int(t[4:]) >= 48 and int(t[4:]) in {b[1] for b in pc.get("bars", [])} for t in toks):
                LOG.n("c02.whole_bar_rest_token_emitted")
            tok.encode(toks)
        except KeyError as e:
            fails.append(fail("encode_fails_on_tokenise_output", str(e)))
        except Exception as e:
            fails.append(fail(f"tokenise_raises.{type(e).__name__}", str(e)[:200]))
    # closure on DERIVED inputs, as users produce them: the piece after an octave-wrapping transposition, and the detokenised
    # output fed in again.  Such an input may legitimately be rejected (a wrapped pitch can leave this configuration's pitch
    # range); what it must never do is get accepted and come out as tokens the vocabulary does not have.
    from scoda.exceptions.tokenisation_exception import TokenisationException
    for k, pc in enumerate(case["pieces"]):
        if pc is None:
            continue
        for how in ("transposed", "detokenised"):
            try:
                seqs = [gen.build_seq(t) for t in pc["tracks"]]
                if how == "transposed":
                    iv = [55, -55, 70, -70][(k + len(pc["tracks"])) % 4]
                    for q in seqs:
                        q.transpose(iv)
                else:
                    seqs = tok.detokenise(tok.tokenise(seqs))
                toks = tok.tokenise(seqs)
                LOG.n("c02.derived_input_tokenised." + how)
                tok.encode(toks)
            except KeyError as e:
                fails.append(fail("encode_fails_on_tokenise_output", {"input": how, "token": str(e)}))
            except TokenisationException:
                LOG.n("c02.derived_input_rejected." + how)
            except Exception as e:
                fails.append(fail(f"tokenise_raises.{type(e).__name__}", {"input": how, "msg": str(e)[:200]}))
    sib = case.get("sibling")
    if sib:
        LOG.n("c02.sibling_configurations")
        try:
            t2 = tc.make_tok(sib, cache=False)
            e2 = tc.expected_vocabulary(sib, list(t2.velocity_bins))
            if set(e2) != set(t2.dictionary) or sorted(t2.dictionary.values()) != list(range(len(t2.dictionary))) \
                    or t2.dictionary_size != len(t2.dictionary):
                fails.append(fail("sibling_configuration_vocabulary", None, w={"differs_in": case.get("sibling_differs_in"),
                                  "missing": sorted(set(e2) - set(t2.dictionary))[:4], "unexpected": sorted(set(t2.dictionary) - set(e2))[:4]}))
            # closure on the sibling: a piece with a signature change at the top of ITS signature range
            hi = (sib.get("tsr") or (2, 16))[1]
            num = hi if hi % 2 else hi // 2
            den = 8 if hi % 2 else 4
            L = 96 * num // den
            if all(orc.coins(tc.steps_of(sib), L)[x] for x in (L,)) and sib["pitch"][0] <= sib["pitch"][1]:
                p0 = sib["pitch"][0]
                v0 = tc.values_of(sib)[0]
                trk = [{"notes": [[0, p0, 0, v0, 90]], "extra": [["ts", 0, num, den]] if k == 0 else [], "pad": L} for k in range(sib["tracks"])]
                toks = t2.tokenise([gen.build_seq(t) for t in trk])
                t2.encode(toks)
        except KeyError as e:
            fails.append(fail("sibling_encode_fails_on_tokenise_output", str(e), w={"differs_in": case.get("sibling_differs_in"), "token": str(e)}))
        except Exception as e:
            LOG.n(f"c02.observed.sibling_raises.{type(e).__name__}")
    return {"nontrivial": True, "fails": fails,
            "shape": ("".join("1" if x else "0" for x in cfg["flags"]), cfg["bins"], cfg["tracks"], case["stratum"]),
            "observed": {"vocabulary": n, "tokens_from_tokenise": ntok, "sample_keys": list(d)[4:8] + list(d)[-2:]}}

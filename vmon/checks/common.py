"""helpers shared by the check drivers"""
from vmon import oracle as orc
from vmon.oracle import automaton, offs_first, events, sounding, peek


def obs(seq):
    """non-perturbing observation of a Sequence: events, notes, duration, problems"""
    pk = peek(seq)
    if pk is None:
        return None
    kind, timed, dur = pk
    order = offs_first(timed) if kind != "rel" else timed
    pr, notes = automaton(order)
    return {"kind": kind, "events": events(timed), "dur": dur, "problems": pr,
            "notes": sorted((c, p, on, of - on, v) for (c, p, on, of, v, _, _) in notes),
            "non": orc.nonnote_events(timed), "snd": sounding(order)[0], "timed": timed, "order": order}


def both_views(seq):
    """reads both views through the public accessors (this DOES regenerate a stale view) and returns
    (events_abs, dur_abs, events_rel, dur_rel)"""
    ta, da = orc.view_abs(seq.abs)
    tr, dr = orc.view_rel(seq.rel)
    return events(ta), da, events(tr), dr


def fail(claim, witness=None, w=None):
    if witness is None and w is not None:
        witness = w
    return {"claim": claim, "witness": repr(witness)[:600] if not isinstance(witness, str) else witness[:600],
            "w": w if w is not None else _js(witness)}


def _js(x, depth=0):
    if x is None or isinstance(x, (bool, int, float, str)):
        return x
    if depth > 5:
        return repr(x)[:80]
    if isinstance(x, dict):
        return {str(k): _js(v, depth + 1) for k, v in list(x.items())[:24]}
    if isinstance(x, (list, tuple, set, frozenset)):
        return [_js(v, depth + 1) for v in list(x)[:24]]
    return repr(x)[:80]

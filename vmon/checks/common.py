"""helpers shared by the check drivers"""
from vmon import oracle as orc
from vmon.oracle import automaton, offs_first, events, sounding, peek


def obs(seq):
    """non-perturbing observation of a Sequence: events, notes, duration, problems"""
    pk = peek(seq)
    if pk is None:
        return None
    kind, timed, dur = pk
    order = orc.abs_order(timed) if kind != "rel" else timed
    if kind == "abs" and getattr(seq, "_rel_stale", True) is False and getattr(seq, "_rel", None) is not None:
        rt, _ = orc.view_rel(seq._rel)
        if any(p[0] != "nonpositive" for p in automaton(rt)[0]):
            order = rt      # ill-formed in the stored relative order: not a well-formed input (see monitors._timed_of)
    pr, notes = automaton(order)
    return {"kind": kind, "events": events(timed), "dur": dur, "problems": pr,
            "notes": sorted((c, p, on, of - on, v) for (c, p, on, of, v, _, _) in notes),
            "non": orc.nonnote_events(timed), "snd": sounding(order)[0], "timed": timed, "order": order}


def both_views(seq):
    """reads both views through the public accessors (this DOES regenerate a stale view) and returns
    (events_abs, dur_abs, events_rel, dur_rel)"""
    ta, da = orc.view_abs(seq.abs)
    tr, dr = orc.view_rel(seq.rel)
    return events(ta), da, events(tr), dr


def fail(claim, witness=None, w=None):
    if witness is None and w is not None:
        witness = w
    return {"claim": claim, "witness": repr(witness)[:600] if not isinstance(witness, str) else witness[:600],
            "w": w if w is not None else _js(witness)}


def _js(x, depth=0):
    if x is None or isinstance(x, (bool, int, float, str)):
        return x
    if depth > 5:
        return repr(x)[:80]
    if isinstance(x, dict):
        return {str(k): _js(v, depth + 1) for k, v in list(x.items())[:24]}
    if isinstance(x, (list, tuple, set, frozenset)):
        return [_js(v, depth + 1) for v in list(x)[:24]]
    return repr(x)[:80]


# ----------------------------------------------------------------------------- prefix histories
# The contracts judge single calls; "all well-formed sequences" includes sequences that earlier public operations
# produced on the SAME object (memoised state, stale views, in-place edits).  A prefix history is applied before the
# operation under test so that history-dependent defects become reachable.

PREFIX_OPS = ["quantise", "quantise_same", "qnl", "normalise", "cutoff", "pad", "transpose", "set_channel", "scale", "copy",
              "read_abs", "read_rel", "iter_abs_velocity_edit", "iter_rel_velocity_edit", "merge_empty", "concat_copy", "touch_defaults"]


def random_prefix(rng, n=(0, 3), same_steps=None):
    ops = []
    for _ in range(rng.randint(*n)):
        name = rng.choice(PREFIX_OPS)
        op = {"op": name}
        if name == "quantise":
            op["steps"] = rng.choice([[12], [6, 8], [24], None, [4]])
        elif name == "quantise_same":
            op["steps"] = same_steps
        elif name == "cutoff":
            m = rng.randint(2, 40)
            op["m"], op["r"] = m, rng.randint(1, m)
        elif name == "pad":
            op["n"] = rng.randrange(0, 300)
        elif name == "transpose":
            op["k"] = rng.choice([1, -1, 2, 12, -12])
        elif name == "set_channel":
            op["c"] = rng.randrange(0, 3)
        elif name == "scale":
            op["k"] = rng.choice([1, 2, 3])
        elif name == "concat_copy":
            # material appended from a copy of another sequence (copy: the by-reference aliasing of concatenate is a known
            # finding of C04 and kept out of these histories); pitches far from the usual pools
            base = rng.choice([22, 104, 60])
            op["notes"] = [[0, base + j, 6 * j, rng.choice([6, 12, 24]), rng.randint(1, 127)] for j in range(rng.randint(1, 3))]
        ops.append(op)
    return ops


def apply_prefix(s, ops):
    """applies a prefix history to the Sequence s (returns the object to continue with: `copy` replaces it)"""
    from scoda.enumerations.message_type import MessageType as MT
    for op in ops:
        n = op["op"]
        if n in ("quantise", "quantise_same"):
            s.quantise(None if op.get("steps") is None else list(op["steps"]))
        elif n == "qnl":
            if "values" in op:
                s.quantise_note_lengths(None if op["values"] is None else list(op["values"]), do_not_extend=op.get("dne", False))
            else:
                s.quantise_note_lengths()
        elif n == "normalise":
            s.normalise()
        elif n == "cutoff":
            s.cutoff(op["m"], op["r"])
        elif n == "pad":
            s.pad(op["n"])
        elif n == "transpose":
            s.transpose(op["k"])
        elif n == "set_channel":
            s.set_channel(op["c"])
        elif n == "scale":
            s.scale(op["k"], quantise_afterwards=False)
        elif n == "copy":
            s = s.copy()
        elif n == "read_abs":
            s.abs
        elif n == "read_rel":
            s.rel
        elif n == "iter_abs_velocity_edit":
            # (ticks are not edited through the generator: moving a message out of time order is not a legal history)
            for m in s.messages_abs():
                if m.message_type == MT.NOTE_ON:
                    m.velocity = (m.velocity % 127) + 1
        elif n == "iter_rel_velocity_edit":
            for m in s.messages_rel():
                if m.message_type == MT.NOTE_ON:
                    m.velocity = (m.velocity % 127) + 1
        elif n == "concat_copy":
            from vmon import gen as _g
            s.concatenate([_g.build_seq({"notes": op["notes"], "extra": []}).copy()])
        elif n == "touch_defaults":
            # other parts of the library use (and sort) the shared default lists: state living outside the object
            from scoda.tokenisation.notelike_tokenisation import MultiTrackLargeVocabularyNotelikeTokeniser as _Tok
            from scoda.misc.util import get_default_note_values, get_default_step_sizes
            _Tok(pitch_range=(60, 61))          # the tokeniser sorts the default lists it was handed, in place
            get_default_note_values()
            get_default_step_sizes()
        elif n == "merge_empty":
            from scoda.sequences.sequence import Sequence
            s.merge([Sequence()])
        elif n == "rejected":
            # a public call that the library REJECTS (it raises); whatever it leaves behind -- on the object, in a class-level or
            # module-level value -- must not influence the legal call that follows
            from vmon.monitors import LOG
            k = op.get("kind")
            try:
                if k == "scale_fraction":
                    s.scale(2.5, quantise_afterwards=False)
                elif k == "scale_small":
                    s.scale(0.3, quantise_afterwards=False)
                elif k == "bar_overlong":
                    from scoda.elements.bar import Bar
                    c = s.copy()
                    c.pad(200)
                    Bar(c, 1, 32)
                elif k == "bar_conflicting_signature":
                    from scoda.elements.bar import Bar
                    from scoda.elements.message import Message
                    c = s.copy()
                    c.add_absolute_message(Message(message_type=MT.TIME_SIGNATURE, numerator=7, denominator=8, time=0))
                    Bar(c, 3, 4)
                elif k == "tokenise_invalid":
                    from scoda.tokenisation.notelike_tokenisation import MultiTrackLargeVocabularyNotelikeTokeniser as _Tok
                    from scoda.sequences.sequence import Sequence
                    _Tok(num_tracks=2).tokenise([s.copy()])              # wrong number of sequences
                elif k == "detokenise_invalid":
                    from scoda.tokenisation.notelike_tokenisation import MultiTrackLargeVocabularyNotelikeTokeniser as _Tok
                    _Tok(num_tracks=1).detokenise(["bar", "no_such_token"])
                elif k == "bar_on_self_error_kept":
                    # Bar construction on the sequence ITSELF is rejected, the caller keeps the exception object (an error list, a
                    # pytest excinfo) while it edits the sequence through the absolute API, and lets go of it afterwards
                    from scoda.elements.bar import Bar
                    from scoda.elements.message import Message
                    kept = []
                    ts = [m for m in s.rel._messages if m.message_type == MT.TIME_SIGNATURE]
                    nd = (5, 8) if any((m.numerator, m.denominator) != (5, 8) for m in ts) else (1, 32)
                    if nd == (1, 32) and sum(m.time for m in s.rel._messages if m.message_type == MT.WAIT) <= 3:
                        LOG.n("prefix.rejected_call_skipped(would be accepted)." + str(k))
                        continue
                    try:
                        Bar(s, nd[0], nd[1])
                        LOG.n("prefix.rejected_call_did_not_raise." + str(k))
                    except Exception as e:
                        kept.append(e)
                        LOG.n("prefix.rejected_call_raised." + str(k))
                    s.add_absolute_message(Message(message_type=MT.CONTROL_CHANGE, channel=0, control=66, velocity=3, time=0))
                    kept.clear()
                    continue
                elif k == "overwrite_stale":
                    ms = list(s.abs._messages)
                    s.rel
                    s.invalidate_abs()
                    s.overwrite_absolute_messages(ms)
                LOG.n("prefix.rejected_call_did_not_raise." + str(k))
            except Exception:
                LOG.n("prefix.rejected_call_raised." + str(k))
    return s


REJECTED_KINDS = ["scale_fraction", "bar_overlong", "tokenise_invalid", "scale_small", "bar_conflicting_signature", "detokenise_invalid",
                  "bar_on_self_error_kept"]


EDIT_OPS = ["cutoff", "set_channel", "transpose", "concat_copy", "iter_rel_velocity_edit", "pad", "scale", "merge_empty"]


def same_then_edit(rng, same_op):
    """prefix pattern [the operation under test with the same arguments, an in-place edit]: whatever the library remembers
    from the first call is stale when the call under test arrives"""
    e = [op for op in random_prefix(rng, n=(3, 3)) if op["op"] in EDIT_OPS][:1] or [{"op": "cutoff", "m": 9, "r": 4}]
    return [same_op] + e


def wrapper_agrees(twin, inner, after, what):
    """The Sequence-level method must do what the representation-level method it delegates to does (that one carries the
    contract) and nothing else: `twin` is a copy taken right before the call, `inner(twin)` applies the representation-level
    method to it; the result must equal the observation `after` of the real object.  Returns a list of failures."""
    from vmon.monitors import LOG
    inner(twin)
    o = obs(twin)
    LOG.n("entry_points.sequence_vs_representation_level")
    if o["events"] != after["events"] or o["dur"] != after["dur"]:
        lost = [e for e in o["events"] if e not in after["events"]][:3]
        new = [e for e in after["events"] if e not in o["events"]][:3]
        return [fail("sequence_level_differs_from_representation_level", {"operation": what, "only_representation_level": lost,
                                                                          "only_sequence_level": new, "dur": (o["dur"], after["dur"])})]
    return []

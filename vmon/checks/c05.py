"""C05 — quantise: grid, well-formed notes, survival.  Deciding oracle: the post-contract on the real
AbsoluteSequence.quantise (monitors.py), evaluated on every call this workload and the in-situ run make."""
from vmon import gen
from vmon.checks.common import wrapper_agrees, obs, fail, both_views, random_prefix, apply_prefix, same_then_edit

EXTREMES = "seq"   # worker re-labels every sixth case to the ends of the legal ranges (gen.extremify)
RESTATE = "seq"    # worker adds a signature restating the one in force to every fifth case (gen.restate_signatures)
DEGEN = "seq"    # worker: every 37th case becomes a degenerate shape (gen.degenerate)
REJECTED = "prefix"    # worker: every thirteenth case starts with a call the library rejects (common.apply_prefix "rejected")
SCALE = True   # worker: every fortieth case is blown up by scale_case below
PROP = "C05"
MONITORS = ["quantise"]
INSITU = {"k": "quantise or composition or tokenisation or scale or example"}
RULE = ("seeded well-formed sequences tuned to collapse (lengths 1-8 around grid points, 2-12 notes on 2-4 pitches, "
        "1-3 channels sharing pitches, control changes between them) x step lists, a quarter of them after a prefix history of 1-3 other public operations on the same object (quantise with the same or another grid, cutoff, pad, transpose, scale, edits while iterating, copy, reads); the contract on the real "
        "quantise decides grid/displacement/pairing/non-notes/image/survival. A case is non-trivial when quantise "
        "moved some event or collapsed a note; distinct by content hash of the materialised case.")
PLAN = {"quick": {"cases": 6000, "jobs": 4, "timeout": 600},
        "thorough": {"cases": 2000000, "jobs": 16, "timeout": 3000, "budget_s": 360}}
FLOORS = {"quick": {"quantise.survival.armed": 300, "quantise.pairing.armed": 2000, "quantise.nonnotes_kept.armed": 2000,
                    "quantise.displacement.armed": 2000},
          "thorough": {"quantise.survival.armed": 5000, "quantise.pairing.armed": 50000}}
STEPS = [[24], [12], [6, 8], [3, 4], [12, 8], [24, 12, 6, 16, 8, 4], None, [4], [6, 4], [48, 32], [5, 7],
         [16, 16, 24], [12, 12, 8], [6, 6], [8, 12, 8, 24], [24, 16, 16], [7, 7, 3], [1], [2, 3], [96]]      # "any list": repeated entries are legal


def scale_case(case, i):
    sp = case["seq"]
    sp["notes"] = gen.big_notes(i, chans=(0, 1, 2), pitches=(60, 61, 62, 63, 64), lmin=1, lmax=30, gap=(0, 30))
    sp.pop("pad", None)
    case["prefix"] = []
    if (i // 41) % 2 == 0:
        case["steps"] = [24, 16, 12, 8, 6, 4, 3, 2, 48, 32, 96, 36, 18, 9, 20, 10, 5, 28, 14, 7]

def make_case(rng, i, tier):
    multi = rng.random() < 0.4
    chans = rng.choice([(0, 1), (0, 1, 2), (1, 3)]) if multi else (rng.choice([0, 0, 2]),)
    base = rng.choice([60, 36, 100])
    pitches = tuple(base + k for k in range(rng.randint(2, 4)))
    steps = rng.choice(STEPS)
    mx = max(steps) if steps else 24
    style = rng.choice(["collapse", "collapse", "mixed", "long", "isolated"])
    if style == "collapse":
        tmax, lmin, lmax, n = rng.choice([60, 100]), 1, 8, rng.randint(2, 12)
    elif style == "mixed":
        tmax, lmin, lmax, n = 150, 1, 40, rng.randint(2, 12)
    elif style == "long":
        tmax, lmin, lmax, n = 200, 10, 90, rng.randint(1, 8)
    else:
        tmax, lmin, lmax, n = 60 + 6 * mx * 4, 1, 3 * mx, rng.randint(1, 5)
    notes = gen.wf_notes(rng, n, chans=chans, pitches=pitches, tmax=tmax, lmin=lmin, lmax=lmax)
    extra = gen.rand_extras(rng, rng.randint(0, 3), tmax + 20, kinds=("cc", "cc", "pc", "ts", "ks"), chans=chans)
    spec = {"notes": notes, "extra": extra, "start": rng.choice(["abs", "abs", "rel", "both"])}
    if rng.random() < 0.3:
        spec["pad"] = rng.randrange(0, tmax + 60)
    prefix = []
    if i % 4 == 3:
        prefix = same_then_edit(rng, {"op": "quantise_same", "steps": steps}) if rng.random() < 0.4 else random_prefix(rng, n=(1, 3), same_steps=steps)
    return {"seq": spec, "steps": steps, "style": style, "prefix": prefix}


def run(case, ctx):
    s = gen.build_seq(case["seq"])
    s = apply_prefix(s, case.get("prefix", []))
    before = obs(s)
    twin = s.copy()
    if case["steps"] is None:
        s.quantise()
    else:
        s.quantise(list(case["steps"]))
    after = obs(s)
    fails = []

    def inner(t):
        t.abs.quantise(None if case["steps"] is None else list(case["steps"]))
        t.invalidate_rel()
    fails += wrapper_agrees(twin, inner, after, "quantise")
    ea, da, er, dr = both_views(s)
    if ea != er or da != dr:
        fails.append(fail("views_disagree_after_quantise", (da, dr)))
    spec = case["seq"]
    keys = {}
    for c, p, on, ln, v in spec["notes"]:
        keys.setdefault(p, set()).add(c)
    shared = any(len(v) > 1 for v in keys.values())
    collapsed = len(before["notes"]) - len(after["notes"])
    moved = before["events"] != after["events"]
    return {"nontrivial": moved or collapsed > 0, "fails": fails,
            "shape": (len(set(n[0] for n in spec["notes"])), "shared" if shared else "-", min(collapsed, 3),
                      str(case["steps"]), case["style"], "prefix" if case.get("prefix") else "fresh"),
            "observed": {"notes_before": len(before["notes"]), "notes_after": len(after["notes"]), "moved": moved}}


def _corpus_body(rng, k):
    from vmon import corpus
    desc, w = corpus.window(rng, min_len=48, max_len=500)
    steps = rng.choice(STEPS)
    desc["steps"] = steps
    before = obs(w)
    w.quantise(None if steps is None else list(steps))
    after = obs(w)
    return desc, before["events"] != after["events"]


def phases(tier):
    from vmon import corpus
    return [("corpus", corpus.phase(300, 20000, _corpus_body))]

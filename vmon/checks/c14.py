"""C14 — transposition.  Deciding oracle: post-contracts on the real Sequence.transpose, Bar.transpose and
Key.transpose_key; the driver adds the transpose-back differential."""
from vmon import gen
from vmon.checks.common import obs, fail, both_views, random_prefix, apply_prefix

SPLIT_WAITS = "seq"   # worker: every fifth case is built from relative messages with rests split into adjacent waits
DEGEN = "seq"    # worker: every 37th case becomes a degenerate shape (gen.degenerate)
DRUMS = "seq"    # worker: every eleventh case is moved onto channel 9 / 15 (gen.relabel_channels)
REJECTED = "prefix"    # worker: every thirteenth case starts with a call the library rejects (common.apply_prefix "rejected")
SCALE = True   # worker: every fortieth case is blown up by scale_case below
PROP = "C14"
ALSO = ("C20",)  # Key.transpose_key's contract speaks for C20; a key that becomes undefined is a C14 violation too
MONITORS = ["transpose"]
INSITU = {"k": "transpose or bar or composition"}
RULE = ("seeded well-formed sequences hugging both range limits (21..108), mid-range, or containing legal MIDI pitches outside the playable range (0..20, 109..127; also with interval 0), with/without key-signature events "
        "(all 15 keys), and Bars with a key, x intervals {0, +-1..+-11, +-12, +-24, +-13, +-88, +-100, random in +-130}; the "
        "contracts on the real transpose functions decide range / pitch-class image / return value / exact shift / key "
        "events / bar key; the driver checks that transposing back restores the original when nothing wrapped. "
        "Non-trivial: interval != 0 and at least one note.")
PLAN = {"quick": {"cases": 6000, "jobs": 4, "timeout": 600},
        "thorough": {"cases": 2000000, "jobs": 16, "timeout": 3000, "budget_s": 360}}
FLOORS = {"quick": {"transpose.exact_shift.armed": 1500, "transpose.key_events.armed": 1500, "bar_transpose.bar_key.armed": 500,
                    "c14.wrapped": 1000, "c14.multiple_of_12_with_key": 150, "c14.source_outside_playable_range": 400,
                    "c14.interval_zero_with_source_outside_range": 100},
          "thorough": {"transpose.exact_shift.armed": 50000, "transpose.key_events.armed": 50000}}
INTERVALS = [0, 1, -1, 2, -3, 5, 7, -7, 11, -11, 12, -12, 24, -24, 13, -13, 30, -30, 88, -88, 100, -100, 36, -36]


def scale_case(case, i):
    if case["bar"]:
        return
    sp = case["seq"]
    sp["notes"] = gen.big_notes(i, chans=(0, 1), pitches=(22, 40, 64, 90, 107), lmin=1, lmax=40, gap=(0, 30))
    sp.pop("pad", None)
    case["prefix"] = []

def degen_case(case, i):
    if case["bar"]:
        # a bar's worth of material: the driver wraps the sequence in a 4/4 Bar, which (rightly) rejects anything longer
        sp = case["seq"]
        sp["notes"] = [[c, p, on % 90, min(ln, 96 - on % 90), v] for (c, p, on, ln, v) in sp["notes"]]
        sp["extra"] = [e for e in sp["extra"] if e[0] in ("cc", "ks") and e[1] <= 96]
        if sp.get("pad") and sp["pad"] > 96:
            sp["pad"] = 96


def make_case(rng, i, tier):
    zone = rng.choice(["low", "high", "mid", "both"])
    pitches = {"low": (21, 22, 23, 30, 33), "high": (108, 107, 100, 96, 95), "mid": (60, 61, 62, 64),
               "both": (21, 22, 64, 107, 108)}[zone]
    chans = rng.choice([(0,), (0, 1)])
    notes = gen.wf_notes(rng, rng.randint(1, 6), chans=chans, pitches=pitches, tmax=80, lmin=1, lmax=30)
    if rng.random() < 0.5:
        vals = [24, 12, 6, 48, 36]
        notes = gen.wf_notes(rng, rng.randint(1, 6), chans=chans, pitches=pitches, ons=list(range(0, 96, 6)), lens=vals)
    extra = []
    nk = rng.choice([0, 1, 1, 2])
    for j in range(nk):
        extra.append(["ks", [0, 48, 24][j], rng.choice(gen.KEYS)])
    extra += gen.rand_extras(rng, rng.randint(0, 2), 90, kinds=("cc", "ts"), chans=chans)
    iv = rng.choice(INTERVALS) if rng.random() < 0.8 else rng.randint(-130, 130)
    asbar = rng.random() < 0.25
    spec = {"notes": notes, "extra": extra, "start": rng.choice(["abs", "rel", "both"])}
    prefix = []
    if i % 4 == 3 and not asbar:
        prefix = random_prefix(rng, n=(1, 3))
        if rng.random() < 0.5:
            # an earlier (non-wrapping) transposition, then material appended near a range limit, then the transposition
            # under test: anything the library remembers about the pitches from the first call is stale by now
            base = rng.choice([22, 23, 104, 106])
            prefix = [{"op": "transpose", "k": rng.choice([1, -1, 2])},
                      {"op": "concat_copy", "notes": [[0, base + j, 6 * j, 12, 50 + j] for j in range(rng.randint(1, 3))]}]
            iv = rng.choice([3, 5, 7, -3, -5, -7, 13, -13])
    if i % 8 == 5 and not prefix:
        # legal MIDI pitches OUTSIDE the playable range 21..108 (a loaded file may contain them): "any interval" includes 0 and
        # multiples of 12, and every resulting note has to be inside the range, so even interval 0 must move these notes
        import random
        r2 = random.Random(f"c14-outside:{i}")
        used = sorted(set(n[1] for n in notes))
        targets = r2.sample([0, 3, 12, 19, 20, 109, 110, 115, 120, 127], min(len(used), r2.randint(1, 3)))
        pm = dict(zip(r2.sample(used, len(targets)), targets))
        for n in notes:
            n[1] = pm.get(n[1], n[1])
        iv = r2.choice([0, 0, 0, 12, -12, 24, 5, -7, 1, -1])
        zone = "outside"
    case = {"seq": spec, "interval": iv, "bar": asbar, "zone": zone, "prefix": prefix}
    if asbar:
        # a 4/4 bar worth of material (duration <= 96), no time signature of its own; key-signature messages stay (a key
        # change inside the bar: the bar's own key is the one in force at its start and may differ from every message)
        spec["notes"] = [n for n in notes if n[2] + n[3] <= 96]
        spec["extra"] = [e for e in extra if e[0] in ("cc", "ks") and e[1] <= 96]
        case["bar_key"] = rng.choice(gen.KEYS + [None])
    return case


def run(case, ctx):
    from vmon.monitors import LOG
    from scoda.elements.bar import Bar
    from scoda.misc.music_theory import Key
    s = gen.build_seq(case["seq"])
    s = apply_prefix(s, case.get("prefix", []))
    iv = case["interval"]
    before = obs(s)
    fails = []
    haskey = any(e[0] == "ks" for e in case["seq"]["extra"]) or case.get("bar_key")
    if iv % 12 == 0 and iv != 0 and haskey:
        LOG.n("c14.multiple_of_12_with_key")
    if any(not 21 <= n[1] <= 108 for n in before["notes"]):
        LOG.n("c14.source_outside_playable_range")
        if iv == 0:
            LOG.n("c14.interval_zero_with_source_outside_range")
    if case["bar"]:
        b = Bar(s, 4, 4, Key(case["bar_key"]) if case.get("bar_key") else None)
        b0 = obs(b.sequence)
        ret = b.transpose(iv)
        target = b.sequence
        before = b0
    else:
        ret = s.transpose(iv)
        target = s
    after = obs(target)
    if ret:
        LOG.n("c14.wrapped")
    elif all(21 <= n[1] <= 108 for n in before["notes"]):
        # (a source pitch outside the playable range cannot come back: the way back has to move it into the range)
        c = target.copy()
        r2 = c.transpose(-iv)
        back = obs(c)
        if r2 or back["notes"] != before["notes"]:
            fails.append(fail("transpose_back_restores", {"interval": iv, "before": before["notes"][:4], "back": back["notes"][:4]}))
    ea, da, er, dr = both_views(target)
    if ea != er or da != dr:
        fails.append(fail("views_disagree_after_transpose", (da, dr)))
    return {"nontrivial": iv != 0 and len(before["notes"]) > 0, "fails": fails,
            "shape": (case["zone"], "bar" if case["bar"] else "seq", bool(ret), iv % 12 == 0, bool(haskey)),
            "observed": {"interval": iv, "returned": bool(ret), "notes": len(after["notes"])}}


def _corpus_body(rng, k):
    from vmon import corpus
    desc, w = corpus.window(rng, min_len=48, max_len=400)
    iv = rng.choice(INTERVALS) if rng.random() < 0.8 else rng.randint(-130, 130)
    desc["interval"] = iv
    n = len(obs(w)["notes"])
    w.transpose(iv)
    return desc, iv != 0 and n > 0


def phases(tier):
    from vmon import corpus
    return [("corpus", corpus.phase(200, 15000, _corpus_body))]

"""C19 — token annotations agree with the detokenised timeline.  Differential, black-box: the note added by token k
is the single element of notes(detokenise(stream[:k+1])) - notes(detokenise(stream[:k])); get_info's annotations
for that token are compared with that note (onset, pitch, circle-of-fifths position from the arithmetic reference)."""
import collections
import math

from vmon import gen
from vmon import oracle as orc
from vmon.checks import tokcommon as tc
from vmon.checks.common import obs, fail

TRACK_CHANNELS = "piece"   # worker: every fourth case moves each track's notes to another channel
SCALE = True   # worker: every fortieth case (or SCALE_EVERY-th) is blown up by scale_case below
PROP = "C19"
MONITORS = ["tokenise", "theory"]
ALSO = ()
INSITU = {"k": "tokenisation"}
TECHNIQUE = "runtime monitoring: differential observer between get_info and prefix-wise detokenise of the same real tokeniser, over random vocabulary streams and tokenise output"
RULE = ("(a) random streams of 1-80 tokens over each configuration's full vocabulary (bar tokens in partly filled bars, rests overshooting the bar capacity, signature "
        "tokens mid-bar, unfused running values, pad/start/stop), (b) streams produced by tokenise from valid pieces; both "
        "imputation settings; all 16 flag combinations. Checked per stream: one annotation per token, positions 0..n-1, and per "
        "note token: annotated time = onset at which detokenise places the note (found by prefix differencing), pitch, "
        "circle-of-fifths position; for tokenise streams also in-bar time = onset - start of its bar and non-decreasing times. "
        "Non-trivial: a note token after a clock-advancing token.")
PLAN = {"quick": {"cases": 1200, "jobs": 4, "timeout": 900},
        "thorough": {"cases": 600000, "jobs": 16, "timeout": 3000, "budget_s": 360}}
FLOORS = {"quick": {"c19.note_tokens_checked": 10000, "#c19.flags.": 16, "c19.tokenise_streams": 300, "c19.random_streams": 600,
                    "c19.midbar_signature_token": 150, "c19.bar_token_in_partly_filled_bar": 150, "c19.bar_token_after_overshooting_rests": 12},
          "thorough": {"c19.note_tokens_checked": 500000, "#c19.flags.": 16}}


def scale_case(case, i):
    if case["kind"] == "random":
        case["long_midbar"] = i

def make_case(rng, i, tier):
    cfg = tc.rand_cfg(rng, i=i % 16)
    if cfg["bins"] not in tc.BINS_REGULAR:
        cfg["bins"] = 1
    kind = "tokenise" if i % 3 == 0 else "random"
    case = {"cfg": cfg, "kind": kind, "impute": rng.random() < 0.5}
    if kind == "tokenise":
        case["piece"] = tc.valid_piece(rng, cfg, stratum="A" if i % 2 else "B")
    else:
        cfg["pitch"] = [cfg["pitch"][0], min(cfg["pitch"][1], cfg["pitch"][0] + 5)]
        case["stream_seed"] = rng.randrange(10 ** 9)
        # the tokeniser's own resolution is a configuration parameter too (bar capacity = ppqn * 4 * num / den); several
        # resolutions are used within one process
        cfg["ppqn"] = rng.choice([None, None, 12, 48, 96])
        case["length"] = rng.randint(1, 80)
        case["p_note"] = rng.choice([0.3, 0.5, 0.7])
        case["rest_heavy"] = rng.random() < 0.35     # rests overshooting the bar capacity before a bar token
        case["grammar"] = rng.random() < 0.4
    return case


def _allnotes(seqs):
    c = collections.Counter()
    for i, s in enumerate(seqs):
        for m in s.abs._messages:
            if m.message_type.value == "note_on":
                c[(i, m.note, m.time)] += 1
    return c


def run(case, ctx):
    import random
    from vmon.monitors import LOG
    cfg = case["cfg"]
    tok = tc.make_tok(cfg)
    fails = []
    LOG.n("c19.flags." + "".join("1" if x else "0" for x in cfg["flags"]))
    bar_starts = None
    if case["kind"] == "tokenise":
        pc = case["piece"]
        if pc is None:
            return {"nontrivial": False, "fails": [], "shape": ("nopiece",)}
        seqs = [gen.build_seq(t) for t in pc["tracks"]]
        stream = tok.tokenise(seqs)
        LOG.n("c19.tokenise_streams")
        grid = orc.bar_grid([(t, (n, d)) for (t, n, d) in pc["ts"]], pc["info"]["D"] + 1)
        bar_starts = [g[0] for g in grid]
    else:
        rnd = random.Random(case["stream_seed"])
        vocab = list(tok.dictionary)
        notes_t = [t for t in vocab if "pit" in t]
        other = [t for t in vocab if "pit" not in t]
        rests = [t for t in other if t.startswith("rst")]
        pick_other = (lambda: rnd.choice(rests) if rnd.random() < 0.6 else rnd.choice(other)) if case.get("rest_heavy") else (lambda: rnd.choice(other))
        if case.get("grammar"):
            # streams assembled from segments aimed at the clock's corner cases: rests filling the current bar exactly,
            # partly, or overshooting it; signature tokens on / off the bar line; bar tokens; notes
            tsgs = [t for t in other if t.startswith("tsg")]
            steps = sorted(int(t.split("_")[1]) for t in rests)
            stream = []
            q = cfg.get("ppqn") or 24
            cap, filled = 4 * q, 0
            while len(stream) < case["length"]:
                seg = rnd.choice(["fill_exact", "fill_exact", "partial", "overshoot", "tsg", "tsg", "bar", "bar", "note", "note", "misc"])
                if seg in ("fill_exact", "partial", "overshoot"):
                    target = {"fill_exact": cap - filled, "partial": rnd.randrange(0, max(1, cap - filled)), "overshoot": cap - filled + rnd.choice(steps)}[seg]
                    while target > 0:
                        c = [x for x in steps if x <= target]
                        if not c:
                            break
                        x = rnd.choice(c[-3:])
                        stream.append(f"rst_{x:02}")
                        target -= x
                        filled += x
                elif seg == "tsg":
                    t = rnd.choice(tsgs)
                    stream.append(t)
                    if filled == 0:
                        cap = 4 * q * int(t.split("_")[1]) // 8
                elif seg == "bar":
                    stream.append("bar")
                    filled = 0
                elif seg == "note":
                    stream += [rnd.choice(notes_t) for _ in range(rnd.randint(1, 3))]
                else:
                    stream.append(rnd.choice(other))
            stream = stream[:case["length"] + 10]
        else:
            stream = [rnd.choice(notes_t) if rnd.random() < case["p_note"] else pick_other() for _ in range(case["length"])]
        LOG.n("c19.random_streams")
    if case.get("long_midbar"):
        # a long stream (model output): more than a hundred signature tokens in the middle of bars, then bar tokens and notes
        rnd2 = random.Random(case["long_midbar"])
        vocab = list(tok.dictionary)
        rests = [t for t in vocab if t.startswith("rst")]
        tsgs = [t for t in vocab if t.startswith("tsg")]
        notes_t = [t for t in vocab if "pit" in t]
        stream = []
        for _ in range(rnd2.randint(110, 180)):
            stream += [rnd2.choice(rests), rnd2.choice(tsgs)]
            if rnd2.random() < 0.3:
                stream.append("bar")
        for _ in range(6):
            stream += ["bar", rnd2.choice(notes_t), rnd2.choice(rests)]
        LOG.n("c19.long_stream_with_mid_bar_signatures")
    elif len(stream) > 160:
        stream = stream[:160]
    if case.get("stream_seed", 0) % 2 == 0 or case["kind"] == "tokenise" and case["impute"]:
        # "streams that no tokenise call produced (for example model output)": tokens arrive as text, i.e. as string objects
        # that are equal to the vocabulary's keys but not the same objects
        import json
        stream = json.loads(json.dumps(stream))
        stream = [("" + t[:1] + t[1:]) for t in stream]
        LOG.n("c19.stream_of_recreated_strings")
    if case.get("stream_seed", 0) % 5 == 3 and len(stream) >= 2:
        # a generation loop that annotated a prefix of this very stream before and hit a malformed token (get_info raises), or that
        # annotated a shorter prefix successfully: what such an earlier call leaves on the tokeniser must not reach this one
        import random
        r8 = random.Random(f"c19-earlier:{case.get('stream_seed', 0)}")
        k = r8.randrange(1, len(stream))
        junk = r8.choice(["rst_1x", "no_such_token", "pit_abc", "", "tsg_04"])
        try:
            tok.get_info(list(stream[:k]) + [junk] + list(stream[k:k + 2]), flag_impute_values=case["impute"])
            LOG.n("c19.earlier_call.malformed_token_accepted")
        except Exception:
            LOG.n("c19.earlier_call.raised")
        if r8.random() < 0.5:
            try:
                tok.get_info(list(stream[:k]), flag_impute_values=case["impute"])
                LOG.n("c19.earlier_call.prefix_annotated")
            except Exception:
                LOG.n("c19.earlier_call.prefix_raised")
    info = tok.get_info(stream, flag_impute_values=case["impute"])
    n = len(stream)
    keys = ("info_position", "info_time", "info_time_bar", "info_pitch", "info_circle_of_fifths")
    if set(info) != set(keys) or any(len(info[k]) != n for k in info):
        fails.append(fail("one_entry_per_token", {k: len(v) for k, v in info.items()}))
        return {"nontrivial": False, "fails": fails, "shape": ("len",)}
    if info["info_position"] != list(range(n)):
        fails.append(fail("positions", info["info_position"][:10]))
    prev = collections.Counter()
    advanced = False
    interesting = False
    last_t = -1
    for k, t in enumerate(stream):
        cur = _allnotes(tok.detokenise(stream[:k + 1]))
        new = cur - prev
        prev = cur
        if "pit" in t:
            LOG.n("c19.note_tokens_checked")
            if advanced:
                interesting = True
            if sum(new.values()) != 1:
                fails.append(fail("note_token_adds_exactly_one_note", (k, t, dict(new))))
                continue
            (trk, pitch, onset), = new.keys()
            if info["info_time"][k] != onset:
                fails.append(fail("time_annotation", {"k": k, "token": t, "annotated": info["info_time"][k], "onset": onset,
                                                      "stream": stream[max(0, k - 6):k + 1]}))
            if info["info_pitch"][k] != pitch:
                fails.append(fail("pitch_annotation", (k, t, info["info_pitch"][k], pitch)))
            if info["info_circle_of_fifths"][k] != orc.cof(pitch):
                fails.append(fail("circle_of_fifths_annotation", (k, t, info["info_circle_of_fifths"][k], orc.cof(pitch))))
            if bar_starts is not None:
                bs = max(b for b in bar_starts if b <= onset)
                if info["info_time_bar"][k] != onset - bs:
                    fails.append(fail("in_bar_time_annotation", {"k": k, "token": t, "annotated": info["info_time_bar"][k], "expected": onset - bs}))
        else:
            if sum(new.values()) != 0:
                fails.append(fail("non_note_token_adds_a_note", (k, t)))
            if t.startswith("rst") or t == "bar":
                advanced = True
            if not case["impute"] and not (isinstance(info["info_pitch"][k], float) and math.isnan(info["info_pitch"][k])):
                fails.append(fail("non_note_token_pitch_not_nan", (k, t, info["info_pitch"][k])))
        if bar_starts is not None:
            if info["info_time"][k] < last_t:
                fails.append(fail("times_decrease", (k, t, last_t, info["info_time"][k])))
            last_t = info["info_time"][k]
        if len(fails) > 4:
            break
    if case["kind"] == "random":
        # mechanism counters (measured on the stream, independent of the library): a bar token while the bar is partly
        # filled, a signature token while the bar is partly filled
        filled = 0
        ticks = 0
        for t in stream:
            if t.startswith("rst"):
                filled += 1
                ticks += int(t.split("_")[1])
            elif t == "bar":
                if filled:
                    LOG.n("c19.bar_token_in_partly_filled_bar")
                if ticks > 96:
                    LOG.n("c19.bar_token_after_overshooting_rests")
                filled = 0
                ticks = 0
            elif t.startswith("tsg") and filled:
                LOG.n("c19.midbar_signature_token")
                if ticks > 0 and ticks % 24 == 0 and ticks in (48, 72, 96, 120, 144, 192):
                    LOG.n("c19.signature_token_after_exactly_filled_bar(candidate)")
    return {"nontrivial": interesting, "fails": fails[:5],
            "shape": (case["kind"], "".join("1" if x else "0" for x in cfg["flags"]), case["impute"], min(n // 20, 6)),
            "observed": {"tokens": n, "stream_head": stream[:10], "times_head": info["info_time"][:10]}}


def _corpus_body(rng, k):
    from vmon import corpus
    from vmon.monitors import LOG
    from scoda.elements.bar import Bar
    from scoda.sequences.sequence import Sequence
    fs = corpus.files()
    f = fs[k % len(fs)]
    name, seqs = corpus.pipeline_piece(f)
    # a run of consecutive bars of the piece (cut on the piece's own bar grid, so signature changes stay on bar lines)
    tb = Sequence.sequences_split_bars(seqs, 0)
    nb = len(tb[0])
    a0 = rng.randrange(0, max(1, nb - 6))
    off = a0
    proc = [Bar.to_sequence([b.copy() for b in trk[a0:a0 + 6]]) for trk in tb]
    cfg = tc.rand_cfg(rng, i=(k // len(fs)) % 16)
    cfg.update(tracks=len(proc), pitch=[21, 108], steps=None, values=None, bins=rng.choice([1, 4]))
    tok = tc.make_tok(cfg)
    stream = tok.tokenise(proc)[:140]
    info = tok.get_info(stream)
    prev = collections.Counter()
    last = -1
    for i, t in enumerate(stream):
        cur = _allnotes(tok.detokenise(stream[:i + 1]))
        new = cur - prev
        prev = cur
        if "pit" in t:
            LOG.n("c19.note_tokens_checked")
            ok = sum(new.values()) == 1
            if ok:
                (trk, pitch, onset), = new.keys()
                ok = info["info_time"][i] == onset and info["info_pitch"][i] == pitch and info["info_circle_of_fifths"][i] == orc.cof(pitch)
            LOG.rec("C19", "corpus", "note_annotation", ok, {"file": name, "k": i, "token": t, "time": info["info_time"][i], "new": list(new)[:2]})
        LOG.rec("C19", "corpus", "times_non_decreasing", info["info_time"][i] >= last, (name, i)) if info["info_time"][i] < last else None
        last = info["info_time"][i]
    return {"file": name, "offset": off, "tokens": len(stream), "cfg": {k2: cfg[k2] for k2 in ("flags", "bins", "tracks")}}, len(stream) > 10


def phases(tier):
    from vmon import corpus
    return [("corpus", corpus.phase(7, 7 * 32, _corpus_body))]

"""C09 — bar splitting follows the signatures and conserves the music.  Deciding oracle: post-contract on the real
static Sequence.sequences_split_bars (snapshots of every input; oracle signature walk bar by bar)."""
from vmon import gen
from vmon.checks.common import obs, fail, random_prefix, apply_prefix

REJECTED = "prefixes"    # worker: every thirteenth case starts with a call the library rejects (common.apply_prefix "rejected")
SCALE = True   # worker: every 41st case is blown up by scale_case below
PROP = "C09"
MONITORS = ["bars"]
INSITU = {"k": ""}
RULE = ("seeded multi-track pieces: 1-3 tracks of unequal length (incl. empty tracks, meta track shorter than the others, "
        "meta index != 0), signatures from {2/4,3/4,4/4,5/4,6/8,2/2,7/8,12/8} and key changes on bar lines, notes crossing "
        "1-3 bar lines, multi-channel tracks, both re-quantisation settings (with re-quantisation on, inputs use allowed "
        "note values); the contract on the real sequences_split_bars decides equal bar counts / bar length, signature, key "
        "in force / coverage / sound exact or subset / only cut fragments shrink / inputs unchanged. Non-trivial: >= 2 bars "
        "and (>= 2 tracks or a signature change).")
PLAN = {"quick": {"cases": 1500, "jobs": 4, "timeout": 600},
        "thorough": {"cases": 800000, "jobs": 16, "timeout": 3000, "budget_s": 360}}
FLOORS = {"quick": {"bars.bar_length.armed": 2000, "bars.sound_exact.armed": 900, "bars.sound_subset.armed": 900,
                    "bars.only_cut_fragments_shrink.armed": 700, "bars.coverage.armed": 1000, "c09.ragged": 400,
                    "c09.signature_change": 400, "c09.note_crosses_bar": 400},
          "thorough": {"bars.bar_length.armed": 60000}}
VALS = gen.DEFAULT_NOTE_VALUES


def scale_case(case, i):
    """long pieces: 70-100 bars under one signature (or two), key changes somewhere inside, up to six tracks"""
    import random
    r = random.Random(f"c09-big:{i}")
    q = case["quantise"]
    case["piece"] = gen.piece(r, ntracks=r.choice([1, 2, 6]), lens=VALS if q else None, multi_channel=True, ragged=True, nseg=(1, 2), nbars=(70, 100),
                              max_notes=40, sigs=[(4, 4), (3, 4), (6, 8), (8, 8), (2, 4)], ongrid=(lambda x: x % 4 == 0 or x % 6 == 0) if q else None)
    case["prefixes"] = [[] for _ in case["piece"]["tracks"]]


def make_case(rng, i, tier):
    q = rng.random() < 0.5
    pc = gen.piece(rng, ntracks=rng.randint(1, 4), lens=VALS if q else None, multi_channel=True, ragged=True,
                   sigs=[(8, 8), (4, 4), (3, 4), (6, 8), (2, 4), (5, 4), (2, 2), (7, 8), (12, 8), (5, 8), (7, 4), (9, 8), (3, 2), (1, 4), (11, 8),
                         (4, 2), (3, 16), (15, 16), (1, 2), (1, 1)],
                   ongrid=(lambda x: x % 4 == 0 or x % 6 == 0) if (q and rng.random() < 0.5) else None)
    if i % 3 == 2:
        # control / program changes ride along (bar counts and coverage must not depend on them): on the final tick of a track
        # (often a bar line), on bar lines, anywhere
        import random
        r6 = random.Random(f"c09-controls:{i}")
        for t in pc["tracks"]:
            tend = gen.end_of(t)
            ch = t["notes"][0][0] if t["notes"] else 0
            for _ in range(r6.randint(1, 3)):
                tick = r6.choice([tend, tend, r6.randrange(0, tend + 1)] + [b[0] for b in pc["bars"] if b[0] <= tend])
                t.setdefault("extra", []).append(r6.choice([["cc", tick, ch, 64, r6.randrange(0, 127)], ["pc", tick, ch, r6.randrange(0, 127)]]))
    # make sure the meta track reaches far enough often (signatures beyond its end are still on its list)
    safe = ("touch_defaults", "normalise", "copy", "read_abs", "read_rel", "iter_rel_velocity_edit", "iter_abs_velocity_edit", "transpose", "merge_empty", "qnl")   # (set_channel would merge
    # the channels of a two-channel track and can make it ill-formed, which is outside what C08/C09 speak about)
    prefixes = [[op for op in random_prefix(rng, n=(1, 2)) if op["op"] in safe and not (op["op"] == "qnl" and not q)] if i % 4 == 3 else [] for _ in pc["tracks"]]
    return {"piece": pc, "quantise": q, "prefixes": prefixes}


def run(case, ctx):
    from vmon.monitors import LOG
    from scoda.sequences.sequence import Sequence
    pc = case["piece"]
    seqs = [apply_prefix(gen.build_seq(t), pf) for t, pf in zip(pc["tracks"], case.get("prefixes") or [[]] * len(pc["tracks"]))]
    pre = [obs(s) for s in seqs]
    tb = Sequence.sequences_split_bars(seqs, pc["meta"], quantise_note_lengths=case["quantise"])
    fails = []
    post = [obs(s) for s in seqs]
    if any(a["events"] != b["events"] or a["dur"] != b["dur"] for a, b in zip(pre, post)):
        fails.append(fail("inputs_changed(sequence level)", None))
    # bars are usable: both views readable and in agreement
    for trk in tb:
        for b in trk:
            ta = b.sequence.abs
            tr = b.sequence.rel
    durs = [p["dur"] for p in pre]
    ragged = len(set(durs)) > 1
    sigchange = len(pc["ts"]) > 1
    bounds = [b[0] for b in pc["bars"]][1:]
    crosses = any(any(n[2] < x < n[2] + n[3] for x in bounds) for p in pre for n in p["notes"])
    if ragged:
        LOG.n("c09.ragged")
    if sigchange:
        LOG.n("c09.signature_change")
    if crosses:
        LOG.n("c09.note_crosses_bar")
    nb = len(tb[0]) if tb else 0
    return {"nontrivial": nb >= 2 and (len(seqs) >= 2 or sigchange), "fails": fails,
            "shape": (len(seqs), min(nb, 6), ragged, sigchange, crosses, case["quantise"], pc["meta"]),
            "observed": {"bars": [len(t) for t in tb], "durations": durs, "signatures": pc["ts"]}}


def _corpus_body(rng, k):
    from vmon import corpus
    from scoda.sequences.sequence import Sequence
    fs = corpus.files()
    f = fs[k % len(fs)]
    name, seqs = corpus.pipeline_piece(f, merge=(k // len(fs)) % 2 == 0 and "multi_track" not in f)
    q = (k // (2 * len(fs))) % 2 == 0
    if k >= 4 * len(fs):
        # a random window of the piece instead of the whole piece (keeps the meta events of track 0)
        d = max(corpus.duration(s) for s in seqs)
        cut = rng.randrange(96, max(97, d))
        seqs = [s.split([cut])[0] if corpus.duration(s) > cut else s for s in seqs]
    tb = Sequence.sequences_split_bars(seqs, 0, quantise_note_lengths=q)
    return {"file": name, "tracks": len(seqs), "quantise": q, "bars": len(tb[0])}, len(tb[0]) >= 2


def phases(tier):
    from vmon import corpus
    return [("corpus", corpus.phase(8, 400, _corpus_body))]

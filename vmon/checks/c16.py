"""C16 — copies and derived sequences are independent values.  History monitor: after deriving (copy at every
level, split, bar splitting with either setting) an operation history is applied to ONE side; the other side's
events/duration are compared with immutable snapshots taken before, through both views, and its views must agree.
The Sequence class invariant (C04's monitor) and the split contract's identity probe run alongside."""
from vmon import gen
from vmon import oracle as orc
from vmon.checks.common import obs, fail

SCALE_EVERY = 37
SCALE = True   # worker: every fortieth case (or SCALE_EVERY-th) is blown up by scale_case below
PROP = "C16"
MONITORS = ["seq_inv", "split"]
ALSO = ()
INSITU = None
TECHNIQUE = "runtime monitoring: before/after snapshots of the untouched side along seeded operation histories + Sequence invariant + identity probe"
RULE = ("originals x derivation route in {Sequence.copy, Bar.copy, Track.copy, Composition.copy, split, sequences_split_bars "
        "with re-quantisation on and off} x histories of 1-6 in-place public operations (transpose, set_channel, scale, pad, "
        "edits through both generators, quantise, normalise, cutoff, merge, overwrite, add) applied to one side (derived or "
        "original, chosen per case); the untouched side must keep its events and duration in both views and its views must "
        "agree; copies must equal their original. Non-trivial: the mutated side really changed.")
PLAN = {"quick": {"cases": 2500, "jobs": 4, "timeout": 600},
        "thorough": {"cases": 2000000, "jobs": 16, "timeout": 3000, "budget_s": 360}}
ROUTES = ["seq_copy", "bar_copy", "track_copy", "composition_copy", "split", "split_bars_q", "split_bars_noq"]
OPS = ["transpose", "set_channel", "scale", "pad", "iter_abs_edit", "iter_rel_edit", "quantise", "qnl", "normalise", "cutoff",
       "merge", "overwrite_abs", "overwrite_rel", "add_abs", "add_rel", "bar_transpose", "transpose_wrap"]
FLOORS = {"quick": {"c16.untouched_side_checked": 2000, "#c16.route.": 14, "#c16.op.": 17, "c16.mutated_side_changed": 1800},
          "thorough": {"c16.untouched_side_checked": 100000, "#c16.route.": 14}}


def scale_case(case, i):
    if case["route"] != "split":
        return
    t = case["piece"]["tracks"][0]
    t["notes"] = gen.big_notes(i, n=[400, 700][(i // 40) % 2], chans=(0, 1), pitches=(60, 61, 72), lmin=1, lmax=40, gap=(0, 30))
    t.pop("pad", None)
    case["piece"]["tracks"] = [t]
    case["caps"] = [[96], [], [96, 96], [1000]][(i // 80) % 4]

def make_case(rng, i, tier):
    route = ROUTES[i % len(ROUTES)]
    side = rng.choice(["derived", "original"])
    pc = gen.piece(rng, ntracks=rng.randint(1, 2), nseg=(1, 2), nbars=(1, 2), lens=gen.DEFAULT_NOTE_VALUES, keys=True,
                   multi_channel=True, max_notes=6, meta=0, sigs=[(4, 4), (3, 4), (6, 8), (2, 4)])
    hist = []
    for _ in range(rng.randint(1, 6)):
        name = rng.choice(OPS)
        op = {"op": name, "which": rng.randrange(0, 8)}
        if name in ("transpose", "bar_transpose"):
            op["k"] = rng.choice([1, -1, 2, 7, 12])
        elif name == "transpose_wrap":
            op["k"] = rng.choice([60, -60])
        elif name == "set_channel":
            op["c"] = rng.randrange(2, 6)
        elif name == "scale":
            op["k"] = rng.choice([2, 3])
        elif name == "pad":
            op["n"] = rng.randrange(100, 500)
        elif name == "cutoff":
            op["m"] = rng.randint(1, 12)
        elif name == "add_abs":
            op["t"] = rng.randrange(0, 90)
        hist.append(op)
    caps = [rng.choice([24, 48, 96, 30]) for _ in range(rng.randint(1, 3))]
    if route == "split" and (i // len(ROUTES)) % 2 == 0 and len(pc["bars"]) >= 2:
        # capacities equal to the bar lengths: the signature / key events of the piece sit exactly on the inner boundaries
        caps = [b[1] for b in pc["bars"]][:rng.randint(2, 3)]
    if route == "split" and (i // len(ROUTES)) % 3 == 1:
        # control / program changes on the very last tick of the source (a pedal release on the final bar line), that tick being the last
        # split boundary; then an operation that writes to non-note messages as well (set_channel) on either side
        import random
        r5 = random.Random(f"c16-final-tick:{i}")
        total = sum(b[1] for b in pc["bars"])
        for t in pc["tracks"]:
            chn = t["notes"][0][0] if t["notes"] else 0
            t.setdefault("extra", []).append(r5.choice([["cc", total, chn, 64, 0], ["pc", total, chn, 7], ["cc", total, chn, 7, 100]]))
            t["pad"] = max(t.get("pad") or 0, total)
        caps = [b[1] for b in pc["bars"]]
        if r5.random() < 0.4 and len(caps) >= 2:
            caps = [caps[0] + caps[1]] + caps[2:]
        hist = hist[:3] + [{"op": "set_channel", "c": r5.randrange(2, 6), "which": len(caps) - 1 if side == "derived" else 0}] + hist[3:]
    return {"route": route, "side": side, "piece": pc, "history": hist, "caps": caps}


def _snap(seq):
    o = obs(seq)
    return (tuple(o["events"]), o["dur"])


def _apply(op, s, bar, step):
    from scoda.elements.message import Message
    from scoda.enumerations.message_type import MessageType as MT
    name = op["op"]
    if name == "transpose" or name == "transpose_wrap":
        s.transpose(op["k"])
    elif name == "bar_transpose":
        if bar is not None:
            bar.transpose(op["k"])
        else:
            s.transpose(op["k"])
    elif name == "set_channel":
        s.set_channel(op["c"])
    elif name == "scale":
        s.scale(op["k"], quantise_afterwards=False)
    elif name == "pad":
        s.pad(op["n"])
    elif name == "iter_abs_edit":
        for x in s.messages_abs():
            if x.message_type == MT.NOTE_ON:
                x.velocity = (x.velocity % 127) + 1
            elif x.message_type == MT.CONTROL_CHANGE:
                x.control = (x.control or 0) % 100 + 1
    elif name == "iter_rel_edit":
        for x in s.messages_rel():
            if x.message_type == MT.NOTE_ON:
                x.velocity = (x.velocity % 127) + 1
            elif x.message_type == MT.WAIT:
                x.time = x.time + 1
    elif name == "quantise":
        s.quantise([24])
    elif name == "qnl":
        s.quantise_note_lengths([5, 7])
    elif name == "normalise":
        s.normalise()
    elif name == "cutoff":
        s.cutoff(op["m"], 1)
    elif name == "merge":
        s.merge([gen.build_seq({"notes": [[0, 90, 3, 9, 77]], "extra": []})])
    elif name == "overwrite_abs":
        s.overwrite_absolute_messages(gen.abs_messages({"notes": [[0, 91, 0, 12, 9]], "extra": []}))
    elif name == "overwrite_rel":
        s.overwrite_relative_messages(gen.rel_messages({"notes": [[0, 92, 0, 12, 9]], "extra": [], "pad": 30}))
    elif name == "add_abs":
        s.add_absolute_message(Message(message_type=MT.CONTROL_CHANGE, control=50 + step, velocity=9, time=op["t"]))
    elif name == "add_rel":
        s.add_relative_message(Message(message_type=MT.CONTROL_CHANGE, control=60 + step, velocity=8))


def run(case, ctx):
    from vmon.monitors import LOG
    from scoda.elements.bar import Bar
    from scoda.elements.track import Track
    from scoda.elements.composition import Composition
    from scoda.misc.music_theory import Key
    from scoda.sequences.sequence import Sequence
    pc = case["piece"]
    route = case["route"]
    fails = []
    seqs = [gen.build_seq(t) for t in pc["tracks"]]
    originals = []      # [(sequence, bar-or-None)]
    deriveds = []
    eq_pairs = []       # (original seq, derived seq) that must be equal right after derivation

    def bars_of():
        tb = Sequence.sequences_split_bars([s.copy() for s in seqs], pc["meta"], quantise_note_lengths=True)
        return tb
    if route == "seq_copy":
        for s in seqs:
            c = s.copy()
            originals.append((s, None))
            deriveds.append((c, None))
            eq_pairs.append((s, c))
    elif route == "bar_copy":
        for trk in bars_of():
            for b in trk[:3]:
                c = b.copy()
                originals.append((b.sequence, b))
                deriveds.append((c.sequence, c))
                eq_pairs.append((b.sequence, c.sequence))
                if (c.time_signature_numerator, c.time_signature_denominator, orc.keyval(c.key_signature)) != \
                        (b.time_signature_numerator, b.time_signature_denominator, orc.keyval(b.key_signature)):
                    fails.append(fail("bar_copy_attributes", None))
    elif route in ("track_copy", "composition_copy"):
        tracks = [Track(trk) for trk in bars_of()]
        if route == "track_copy":
            cps = [t.copy() for t in tracks]
        else:
            comp = Composition(tracks)
            cps = comp.copy().tracks
        for t, c in zip(tracks, cps):
            if len(t.bars) != len(c.bars):
                fails.append(fail("copy_bar_count", (len(t.bars), len(c.bars))))
            for b, cb in list(zip(t.bars, c.bars))[:3]:
                originals.append((b.sequence, b))
                deriveds.append((cb.sequence, cb))
                eq_pairs.append((b.sequence, cb.sequence))
    elif route == "split":
        for s in seqs:
            ps = s.split(list(case["caps"]))
            originals.append((s, None))
            for p in ps:
                deriveds.append((p, None))
    else:
        tb = Sequence.sequences_split_bars(seqs, pc["meta"], quantise_note_lengths=(route == "split_bars_q"))
        for s in seqs:
            originals.append((s, None))
        for trk in tb:
            for b in trk[:4]:
                deriveds.append((b.sequence, b))
    LOG.n(f"c16.route.{route}.{case['side']}")
    for a, b in eq_pairs:
        if _snap(a) != _snap(b):
            fails.append(fail("copy_not_equal_to_original", {"route": route}))
        if not a.equals(b):
            LOG.n("c16.observed.library_equals_says_copy_differs")
    if not originals or not deriveds:
        return {"nontrivial": False, "fails": fails, "shape": (route, "empty")}
    mutate, keep = (deriveds, originals) if case["side"] == "derived" else (originals, deriveds)
    # pieces of one split are also independent of each other: keep the un-mutated pieces under watch too
    before_keep = [_snap(s) for s, _ in keep]
    before_mut = [_snap(s) for s, _ in mutate]
    touched = set()
    for step, op in enumerate(case["history"]):
        k = op["which"] % len(mutate)
        touched.add(k)
        s, bar = mutate[k]
        LOG.n(f"c16.op.{op['op']}")
        _apply(op, s, bar, step)
    changed = any(_snap(mutate[k][0]) != before_mut[k] for k in touched)
    if changed:
        LOG.n("c16.mutated_side_changed")
    watch = [(s, sn, "other_side") for (s, _), sn in zip(keep, before_keep)]
    watch += [(mutate[k][0], before_mut[k], "sibling") for k in range(len(mutate)) if k not in touched]
    for s, sn, role in watch:
        LOG.n("c16.untouched_side_checked")
        now = _snap(s)
        if now != sn:
            fails.append(fail("untouched_side_changed", {"route": route, "side": case["side"], "role": role,
                                                          "before": [e for e in sn[0] if e not in now[0]][:3],
                                                          "after": [e for e in now[0] if e not in sn[0]][:3], "dur": (sn[1], now[1])}))
            continue
        ta, da = orc.view_abs(s.abs)
        tr, dr = orc.view_rel(s.rel)
        ea, er = tuple(orc.events(ta)), tuple(orc.events(tr))
        if ea != er or da != dr:
            fails.append(fail("untouched_side_views_disagree", {"route": route, "role": role, "dur": (da, dr)}))
        elif (ea, da) != sn:
            fails.append(fail("untouched_side_changed_in_a_view", {"route": route, "role": role}))
    return {"nontrivial": changed, "fails": fails, "shape": (route, case["side"], len(case["history"]), len(mutate), len(keep)),
            "observed": {"route": route, "side": case["side"], "mutated": len(touched), "watched": len(watch), "changed": changed}}

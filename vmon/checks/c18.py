"""C18 — pad, cut-off, integer scaling, channel assignment.  Deciding oracle: post-contracts on the four
real Sequence wrappers."""
from vmon import gen
from vmon.checks.common import obs, fail, both_views, random_prefix, apply_prefix

EXTREMES = "seq"   # worker re-labels every sixth case to the ends of the legal ranges (gen.extremify)
RESTATE = "seq"    # worker adds a signature restating the one in force to every fifth case (gen.restate_signatures)
CANONICAL_ABS = True   # cut-off pairs notes over the canonically sorted list (oracle.abs_order)
SPLIT_WAITS = "seq"   # worker: every fifth case is built from relative messages with rests split into adjacent waits
DEGEN = "seq"    # worker: every 37th case becomes a degenerate shape (gen.degenerate)
REJECTED_EVERY = 7
REJECTED = "prefix"    # worker: every thirteenth case starts with a call the library rejects (common.apply_prefix "rejected")
SCALE = True   # worker: every fortieth case is blown up by scale_case below
PROP = "C18"
MONITORS = ["c18"]
INSITU = {"k": "pad or cutoff or scale or tokenisation or bar or composition or channel"}
RULE = ("seeded well-formed sequences x {pad(n): n in {0,d-1,d,d+1,random}; cutoff(m,r<=m) around the occurring lengths; "
        "scale(k in 1..8) without re-quantisation on arbitrary inputs and with the default re-quantisation on inputs whose "
        "k-fold image is already grid/value conformant; set_channel(0..15)}; the contracts on the real wrappers decide. "
        "Non-trivial: the call changed the sequence or used a boundary argument.")
PLAN = {"quick": {"cases": 8000, "jobs": 4, "timeout": 600},
        "thorough": {"cases": 2000000, "jobs": 16, "timeout": 3000, "budget_s": 360}}
FLOORS = {"quick": {"pad.duration.armed": 1200, "cutoff.notes.armed": 1200, "scale.notes.armed": 2000,
                    "set_channel.all_channels.armed": 1200, "c18.scale_quantised_armed": 500},
          "thorough": {"pad.duration.armed": 30000, "cutoff.notes.armed": 30000, "scale.notes.armed": 50000}}
DEFAULT_VALUES = gen.DEFAULT_NOTE_VALUES


def scale_case(case, i):
    if case["op"] == "scaleq":
        return
    sp = case["seq"]
    sp["notes"] = gen.big_notes(i, chans=(0, 1, 2), pitches=(60, 61, 62), lmin=1, lmax=50, gap=(0, 40))
    sp.pop("pad", None)
    case["prefix"] = []
    if case["op"] == "pad":
        case["n"] = gen.end_of(sp) + (i % 3 - 1) * 1000
    if case["op"] == "cutoff":
        # held notes under the melody: they start early and end after the last of the other long notes
        end = gen.end_of(sp)
        sp["notes"] += [[0, 36, 0, end + 5, 64], [0, 38, 10, end // 2, 65], [3, 40, 5, end - 20, 66]]
        case["m"], case["r"] = 30, 1 + i % 30

def make_case(rng, i, tier):
    op = ["pad", "cutoff", "scale", "scaleq", "chan"][i % 5]
    chans = rng.choice([(0,), (0, 1), (3,), (0, 1, 2)])
    start = rng.choice(["abs", "rel", "both"])
    if op == "scaleq":
        k = rng.choice([1, 2, 3, 4, 6, 8, 9, 12])
        targets = [v for v in DEFAULT_VALUES if v % k == 0]
        lens = sorted(set(v // k for v in targets))
        ons = [t for t in range(0, 120) if t % 4 == 0 or t % 6 == 0]
        notes = gen.wf_notes(rng, rng.randint(0, 9), chans=chans, pitches=(60, 61, 62), ons=ons, lens=lens)
        g = lambda t: t % 4 == 0 or t % 6 == 0  # noqa: E731
        notes = [n for n in notes if g((n[2] + n[3]) * k) and g(n[2] * k)]
        extra = gen.rand_extras(rng, rng.randint(0, 2), 0, ticks=ons, kinds=("cc", "pc"), chans=chans)
        spec = {"notes": notes, "extra": extra, "start": start}
        if rng.random() < 0.4:
            spec["pad"] = rng.choice(ons) + 120
        return {"op": op, "seq": spec, "k": k}
    notes = gen.wf_notes(rng, rng.randint(0, 7), chans=chans, pitches=(60, 61, 62), tmax=80, lmin=1, lmax=50)
    extra = gen.rand_extras(rng, rng.randint(0, 3), 100, kinds=("cc", "pc", "ts", "ks"), chans=chans)
    spec = {"notes": notes, "extra": extra, "start": start}
    if op == "cutoff" and (i // 5) % 2 == 1:
        # cut-off pairs notes over the canonically sorted list: the insertion order of the absolute messages must not matter
        spec["start"], spec["shuffle_seed"] = "abs_shuffled", i
        for n0 in list(notes)[:2]:
            # a legato repetition: the same key struck again on the tick it is released
            cand = [n0[0], n0[1], n0[2] + n0[3], 5 + (i % 40), 33]
            if all(not (x[0] == cand[0] and x[1] == cand[1] and not (cand[2] + cand[3] <= x[2] or cand[2] >= x[2] + x[3])) for x in notes):
                notes.append(cand)
    if rng.random() < 0.35:
        spec["pad"] = rng.randrange(0, 200)
    d = gen.end_of(spec)
    case = {"op": op, "seq": spec, "prefix": random_prefix(rng, n=(1, 3)) if i % 3 == 2 else []}
    if spec.get("start") == "abs_shuffled":
        case["prefix"] = []      # (a prefix would run operations that walk the list as stored; only cut-off itself is under test here)
    if op == "pad":
        case["n"] = rng.choice([0, d, d + 1, max(d - 1, 0), rng.randrange(0, 300), d + 96])
    elif op == "cutoff":
        lens = [n[3] for n in notes] or [10]
        m = rng.choice([rng.choice(lens), rng.choice(lens) - 1, rng.choice(lens) + 1, rng.randint(1, 50)])
        m = max(1, m)
        case["m"], case["r"] = m, rng.choice([m, 1, rng.randint(1, m)])
    elif op == "scale":
        case["k"] = rng.randint(1, 8)
    else:
        case["ch"] = rng.randrange(0, 16)
        if case["prefix"] and rng.random() < 0.5:
            # the same assignment twice with appended material in between
            case["prefix"] = [{"op": "set_channel", "c": case["ch"]},
                              {"op": "concat_copy", "notes": [[rng.choice([0, 1]), 70 + j, 6 * j, 12, 30 + j] for j in range(rng.randint(1, 3))]}]
    if op == "chan" and (i // 5) % 3 == 1 and notes:
        # the target is a channel the sequence already uses: for some of its events the assignment is a no-op (the channel of the
        # last event, of the first event, or of the lowest channel)
        last = max(notes, key=lambda n: (n[2] + n[3], n[0]))
        first = min(notes, key=lambda n: (n[2], n[0]))
        tgt = [last[0], first[0], min(n[0] for n in notes)][(i // 15) % 3]
        for o_ in case["prefix"]:
            if o_.get("op") == "set_channel" and o_.get("c") == case["ch"]:
                o_["c"] = tgt
        case["ch"] = tgt
    if op == "pad" and case["prefix"] and rng.random() < 0.4:
        case["prefix"] = [{"op": "pad", "n": case["n"]}, {"op": "concat_copy", "notes": [[0, 71, 0, 12, 33]]}]
    if op == "scale" and case["prefix"] and rng.random() < 0.4:
        case["prefix"] = [{"op": "scale", "k": case["k"]}, {"op": "concat_copy", "notes": [[0, 71, 0, 12, 33]]}]
    return case


def run(case, ctx):
    from vmon.monitors import LOG
    s = gen.build_seq(case["seq"])
    s = apply_prefix(s, case.get("prefix", []))
    before = obs(s)
    op = case["op"]
    boundary = False
    if op == "pad":
        s.pad(case["n"])
        boundary = abs(case["n"] - before["dur"]) <= 1
    elif op == "cutoff":
        s.cutoff(case["m"], case["r"])
        boundary = any(abs(n[3] - case["m"]) <= 1 for n in before["notes"])
    elif op == "scale":
        s.scale(case["k"], quantise_afterwards=False)
    elif op == "scaleq":
        c0 = LOG.cnt.get("scale.notes.armed", 0)
        s.scale(case["k"])
        if LOG.cnt.get("scale.notes.armed", 0) > c0:
            LOG.n("c18.scale_quantised_armed")
    else:
        s.set_channel(case["ch"])
    after = obs(s)
    fails = []
    ea, da, er, dr = both_views(s)
    if ea != er or da != dr:
        fails.append(fail("views_disagree_after_" + op, (da, dr)))
    changed = after["events"] != before["events"] or after["dur"] != before["dur"]
    return {"nontrivial": changed or boundary, "fails": fails,
            "shape": (op, len(set(n[0] for n in case["seq"]["notes"])), changed, boundary, case["seq"]["start"]),
            "observed": {"dur_before": before["dur"], "dur_after": after["dur"]}}


def _corpus_body(rng, k):
    from vmon import corpus
    desc, w = corpus.window(rng, min_len=48, max_len=400)
    op = rng.choice(["pad", "cutoff", "scale", "scaleq", "chan"])
    desc["op"] = op
    before = obs(w)
    if op == "pad":
        w.pad(rng.choice([0, before["dur"], before["dur"] + 1, rng.randrange(0, 900)]))
    elif op == "cutoff":
        m = rng.randint(1, 48)
        w.cutoff(m, rng.randint(1, m))
    elif op == "scale":
        w.scale(rng.randint(1, 8), quantise_afterwards=False)
    elif op == "scaleq":
        w.quantise_and_normalise()
        w.scale(rng.choice([1, 2, 3]))
    else:
        w.set_channel(rng.randrange(0, 16))
    after = obs(w)
    return desc, after["events"] != before["events"] or after["dur"] != before["dur"]


def phases(tier):
    from vmon import corpus
    return [("corpus", corpus.phase(300, 15000, _corpus_body))]

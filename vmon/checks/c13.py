"""C13 — loading rescales file ticks exactly and routes every event to the right sequence.  Differential monitor:
files are written directly with mido (any resolution, delta pattern, note_on-velocity-0 as note-off, meta placement),
loaded with the real Sequence.sequences_load under a seeded grouping, and compared with an independent parse of the
same file using exact Fractions (ties accept both neighbours)."""
import os
from fractions import Fraction

from vmon import gen
from vmon import oracle as orc
from vmon.checks.common import obs, fail

PROP = "C13"
MONITORS = ["normalise", "merge"]
INSITU = None
TECHNIQUE = "runtime monitoring: differential observer between the real loader and an independent exact-rational parse of mido-written files"
RULE = ("seeded raw MIDI files written with mido: ticks_per_beat in {24,48,96,100,120,192,384,480,960,7,32767}, 1-5 tracks with "
        "track-private pitch pools, 0-8 notes (sometimes a second channel taking over a pitch of the first inside one track) (or a long run of 300-1500 deltas for drift), note-off as note_off or note_on "
        "velocity 0, channels 0-15, time/key signatures on arbitrary tracks (distinct output ticks), x groupings (singletons, "
        "merged groups, omitted tracks, meta-only tracks, every meta target index). Stratum A: every note at least one output "
        "tick long with gaps that survive rounding (must be entirely clean); stratum B: notes that collapse to zero length under rescaling "
        "(they contribute nothing; a note whose ends may round to the same tick on an exact tie may be absent; every other note must be in place — clean since fix 8e50f06); stratum U: resolution 24, the tracks of a group share channel and pitches and carry unmatched note events. Checked: every note/signature event within half a tick of its exact rational position (no drift), "
        "group sounding = union of its tracks, signatures of considered tracks on the meta sequence only, no notes from "
        "ungrouped tracks. Non-trivial: resolution != 24 and >= 2 tracks.")
PLAN = {"quick": {"cases": 1200, "jobs": 4, "timeout": 600},
        "thorough": {"cases": 500000, "jobs": 16, "timeout": 3000, "budget_s": 360}}
FLOORS = {"quick": {"c13.notes_position_checked": 3000, "c13.signature_position_checked": 500, "c13.long_track": 50,
                    "c13.omitted_track": 150, "c13.merged_group": 200, "c13.non_dyadic_resolution": 250, "c13.union_groups_checked": 150,
                    "c13.note_collapsing_to_zero_length": 300, "c13.unrepresented_message_written": 1500, "c13.file_object_converted_twice": 100},
          "thorough": {"c13.notes_position_checked": 150000}}
TPB = [24, 48, 96, 100, 120, 192, 384, 480, 960, 7, 32767]
KEYS_MIDO = ["C", "G", "D", "A", "E", "B", "F#", "C#", "F", "Bb", "Eb", "Ab", "Db", "Gb", "Cb", "Am", "Em", "Dm", "F#m", "Ebm"]
MINOR = {"Am": "C", "Em": "G", "Dm": "F", "F#m": "A", "Ebm": "Gb"}


def make_union_case(rng, i):
    """stratum U: resolution 24 (no rounding), the tracks of a group share channel and pitches, and some tracks carry
    unmatched note events (legal MIDI: an excerpt starting mid-note, a note never released); the group must sound like the
    union of what each track sounds like on its own"""
    nt = rng.randint(2, 4)
    pitches = [60, 62]
    tracks = []
    for t in range(nt):
        evs = []
        busy = {}
        for _ in range(rng.randint(0, 5)):
            p = rng.choice(pitches)
            on = rng.randrange(0, 160)
            ln = rng.randint(2, 40)
            iv = busy.setdefault(p, [])
            if any(not (on + ln < a or on > b) for a, b in iv):
                continue
            iv.append((on, on + ln))
            evs.append([on, "on", 0, p, rng.randint(1, 127)])
            evs.append([on + ln, "off", 0, p, rng.random() < 0.5])
        r = rng.random()
        if r < 0.35:
            evs.append([rng.randrange(0, 200), "off", 0, rng.choice(pitches), False])        # stray note-off
        elif r < 0.6:
            evs.append([rng.randrange(100, 220), "on", 0, rng.choice(pitches), 90])          # never released
        order = {"off": 0, "on": 2}
        evs.sort(key=lambda e: (e[0], order[e[1]]))
        tracks.append(evs)
    idx = list(range(nt))
    rng.shuffle(idx)
    ngroups = rng.randint(1, max(1, nt - 1))
    groups = [[] for _ in range(ngroups)]
    for j, k in enumerate(idx):
        groups[j % ngroups].append(k)
    return {"tpb": 24, "tracks": tracks, "groups": groups, "meta": [0], "target": 0, "stratum": "U", "default_call": False, "long": False}


def make_case(rng, i, tier):
    if i % 6 == 5:
        return make_union_case(rng, i)
    tpb = rng.choice(TPB)
    stratum = "B" if i % 4 == 3 else "A"
    nt = rng.randint(1, 5)
    unit = Fraction(tpb, 24)                     # file ticks per output tick
    minlen = int(unit) + 2 if stratum == "A" else 1
    mingap = int(unit) + 2
    long_run = rng.random() < 0.08
    tracks = []
    used_sig_out = {"ts": set(), "ks": set()}
    for t in range(nt):
        pitches = [30 + t * 5 + k for k in range(3)]
        chan = rng.randrange(0, 16)
        span = int(unit * rng.choice([60, 150, 400]))
        evs = []
        busy = {}
        if long_run:
            # drift stratum: hundreds of short deltas on one pitch
            tt = 0
            for _ in range(rng.randint(300, 1500)):
                ln = minlen + rng.randrange(0, 3)
                evs.append([tt, "on", chan, pitches[0], rng.randint(1, 127)])
                evs.append([tt + ln, "off", chan, pitches[0], rng.random() < 0.5])
                tt += ln + mingap + rng.randrange(0, 3)
        else:
            for _ in range(rng.randint(0, 8)):
                p = rng.choice(pitches)
                on = rng.randrange(0, max(1, span))
                ln = rng.randint(minlen, max(minlen, int(unit * 30)))
                if stratum == "B" and rng.random() < 0.5:
                    ln = rng.randint(1, max(1, int(unit)))
                iv = busy.setdefault(p, [])
                if any(not (on + ln + mingap <= a or on >= b + mingap) for a, b in iv):
                    continue
                iv.append((on, on + ln))
                evs.append([on, "on", chan, p, rng.randint(1, 127)])
                evs.append([on + ln, "off", chan, p, rng.random() < 0.5])
        if not long_run and rng.random() < 0.3:
            # voice hand-over inside one file track: another channel strikes a pitch a few file ticks BEFORE the first channel
            # releases it (note-on written before the note-off; both usually round to the same library tick)
            chan2 = (chan + 1 + rng.randrange(0, 14)) % 16
            for e in [x for x in evs if x[1] == "off"][:2]:
                t_on = max(0, e[0] - rng.randrange(0, max(1, int(unit) // 2 + 1)))
                ln2 = rng.randint(minlen, max(minlen, int(unit * 20)))
                iv2 = busy.setdefault(("h", e[3]), [])
                if any(not (t_on + ln2 + mingap <= a or t_on >= b + mingap) for a, b in iv2):
                    continue
                iv2.append((t_on, t_on + ln2))
                evs.append([t_on, "on", chan2, e[3], rng.randint(1, 127)])
                evs.append([t_on + ln2, "off", chan2, e[3], rng.random() < 0.5])
        for _ in range(rng.randint(0, 2)):
            kind = rng.choice(["ts", "ks"])
            T = rng.randrange(0, max(1, span))
            fr = Fraction(T * 24, tpb)
            near = orc.nearest_ticks(fr)
            if len(near) > 1 or near[0] in used_sig_out[kind]:
                continue
            used_sig_out[kind].add(near[0])
            if kind == "ts":
                evs.append([T, "ts", 0, rng.choice([2, 3, 4, 5, 6, 7, 9, 12]), rng.choice([2, 4, 8, 16])])
            else:
                evs.append([T, "ks", 0, rng.choice(KEYS_MIDO), 0])
        if rng.random() < 0.3:
            evs.append([rng.randrange(0, max(1, span)), "cc", chan, 64, rng.randrange(0, 128)])
        if rng.random() < 0.2:
            evs.append([0, "pc", chan, rng.randrange(0, 128), 0])
        if i % 3 == 1 and not long_run:
            # messages the library has no representation for (pitch bend gestures, aftertouch ramps, sysex, tempo / text meta
            # events): they are skipped, but the delta times they carry belong to the track's clock like any other
            import random
            r2 = random.Random(f"c13-foreign:{i}:{t}")
            for _ in range(r2.randint(1, 3)):
                T = r2.randrange(0, max(1, span))
                for _k in range(r2.randint(2, 5)):
                    evs.append([T, "x", chan, r2.choice(["pitchwheel", "aftertouch", "polytouch", "sysex", "set_tempo", "text"]), r2.randrange(0, 100)])
                    T += r2.randint(1, max(2, int(unit * 3)))
        order = {"off": 0, "ts": 1, "ks": 1, "cc": 1, "pc": 1, "x": 1, "on": 2}
        evs.sort(key=lambda e: (e[0], order[e[1]]))
        tracks.append(evs)
    idx = list(range(nt))
    rng.shuffle(idx)
    ngroups = rng.randint(1, nt)
    used = idx[:rng.randint(ngroups, nt)]
    groups = [[] for _ in range(ngroups)]
    for j, k in enumerate(used):
        groups[j % ngroups].append(k)
    meta = [k for k in range(nt) if rng.random() < 0.6]
    default_call = rng.random() < 0.2
    return {"tpb": tpb, "tracks": tracks, "groups": groups, "meta": meta, "target": rng.randrange(ngroups), "stratum": stratum,
            "default_call": default_call, "long": long_run}


def classify(f, case):
    return None   # no known finding left for C13 (the collapsed-note defect was repaired in 8e50f06)


def _match(el, gl):
    """el: expected notes [(A, B, velocity, may_collapse)] in onset order, A / B the sets of admissible ticks (two on an exact
    .5 tie); gl: loaded notes [(on, off, velocity)] in order.  A note whose ends may round to the same tick may be absent."""
    states = {0}
    for (A, B, ve, optional) in el:
        new = set()
        for j in states:
            if j < len(gl) and gl[j][0] in A and gl[j][1] in B and gl[j][2] == ve:
                new.add(j + 1)
            if optional:
                new.add(j)
        states = new
        if not states:
            return False
    return len(gl) in states


def run(case, ctx):
    import mido
    from vmon.monitors import LOG
    from scoda.sequences.sequence import Sequence
    tpb = case["tpb"]
    f = mido.MidiFile()
    f.ticks_per_beat = tpb
    for evs in case["tracks"]:
        tr = mido.MidiTrack()
        t = 0
        for e in evs:
            T, kind = e[0], e[1]
            d = T - t
            t = T
            if kind == "on":
                tr.append(mido.Message("note_on", channel=e[2], note=e[3], velocity=e[4], time=d))
            elif kind == "off":
                tr.append(mido.Message("note_on", channel=e[2], note=e[3], velocity=0, time=d) if e[4]
                          else mido.Message("note_off", channel=e[2], note=e[3], velocity=0, time=d))
            elif kind == "ts":
                tr.append(mido.MetaMessage("time_signature", numerator=e[3], denominator=e[4], time=d))
            elif kind == "ks":
                tr.append(mido.MetaMessage("key_signature", key=e[3], time=d))
            elif kind == "cc":
                tr.append(mido.Message("control_change", channel=e[2], control=e[3], value=e[4], time=d))
            elif kind == "pc":
                tr.append(mido.Message("program_change", channel=e[2], program=e[3], time=d))
            elif kind == "x":
                LOG.n("c13.unrepresented_message_written")
                sub = e[3]
                if sub == "pitchwheel":
                    tr.append(mido.Message("pitchwheel", channel=e[2], pitch=e[4] * 50 - 2000, time=d))
                elif sub == "aftertouch":
                    tr.append(mido.Message("aftertouch", channel=e[2], value=e[4], time=d))
                elif sub == "polytouch":
                    tr.append(mido.Message("polytouch", channel=e[2], note=60, value=e[4], time=d))
                elif sub == "sysex":
                    tr.append(mido.Message("sysex", data=[1, 2, e[4]], time=d))
                elif sub == "set_tempo":
                    tr.append(mido.MetaMessage("set_tempo", tempo=400000 + e[4] * 1000, time=d))
                else:
                    tr.append(mido.MetaMessage("text", text="x%d" % e[4], time=d))
        f.tracks.append(tr)
    path = os.path.join(ctx.scratch, f"c13_{os.getpid()}.mid")
    f.save(path)
    nt = len(case["tracks"])
    try:
        if case["default_call"]:
            groups, meta, target = [[k] for k in range(nt)], list(range(nt)), 0
            out = Sequence.sequences_load(path)
        else:
            groups, meta, target = case["groups"], case["meta"], case["target"]
            if case["target"] % 2 == 0:
                out = Sequence.sequences_load(file_path=path, track_indices=[list(g) for g in groups], meta_track_indices=list(meta),
                                              target_meta_track_index=target)
            else:
                from scoda.midi.midi_file import MidiFile
                # one opened file object converted more than once (another grouping first, then the one under test): converting
                # must not consume or rewrite what the object holds
                mf = MidiFile.open(path)
                if len(case["tracks"]) != 3:
                    LOG.n("c13.file_object_converted_twice")
                    mf.convert([[k] for k in range(len(case["tracks"]))], list(range(len(case["tracks"]))), 0)
                    Sequence.sequences_load(midi_file=mf)
                out = Sequence.sequences_load(midi_file=mf, track_indices=[list(g) for g in groups],
                                              meta_track_indices=list(meta), target_meta_track_index=target)
    finally:
        os.remove(path)
    fails = []
    if len(out) != len(groups):
        fails.append(fail("sequence_count", (len(groups), len(out))))
        return {"nontrivial": False, "fails": fails, "shape": ("count",)}
    grouped = set(k for g in groups for k in g)
    considered = grouped | set(meta)
    if len(grouped) < nt:
        LOG.n("c13.omitted_track")
    if any(len(g) > 1 for g in groups):
        LOG.n("c13.merged_group")
    if tpb not in (24, 48, 96, 192, 384):
        LOG.n("c13.non_dyadic_resolution")
    if case["long"]:
        LOG.n("c13.long_track")

    def near(T):
        return orc.nearest_ticks(Fraction(T * 24, tpb))
    if case["stratum"] == "U":
        for gi, (g, o) in enumerate(zip(groups, out)):
            exp = orc.union_intervals([orc.sounding([(e[0], _Ev(e)) for e in case["tracks"][k]])[0] for k in g])
            got = obs(o)["snd"]
            LOG.n("c13.union_groups_checked")
            if got != exp:
                ks = sorted(set(exp) | set(got))
                fails.append(fail("group_union_of_track_soundings", None, w={"group": gi, "tracks": g,
                                  "expected": {str(k): exp.get(k) for k in ks}, "loaded": {str(k): got.get(k) for k in ks}}))
        return {"nontrivial": len(case["tracks"]) >= 2, "fails": fails, "shape": ("U", len(case["tracks"]), len(groups)),
                "observed": {"groups": groups}}
    for gi, (g, o) in enumerate(zip(groups, out)):
        oo = obs(o)
        got = {}
        for (c, p, on, d, v) in oo["notes"]:
            got.setdefault((c, p), []).append((on, on + d, v))
        exp = {}
        for k in g:
            opened = {}
            for e in case["tracks"][k]:
                if e[1] == "on":
                    opened[(e[2], e[3])] = (e[0], e[4])
                elif e[1] == "off" and (e[2], e[3]) in opened:
                    on, v = opened.pop((e[2], e[3]))
                    A, B = near(on), near(e[0])
                    if max(B) <= min(A):
                        LOG.n("c13.note_collapsing_to_zero_length")   # zero length after rounding: contributes nothing
                        exp.setdefault((e[2], e[3]), [])
                        continue
                    exp.setdefault((e[2], e[3]), []).append((A, B, v, min(B) <= max(A)))   # tie-dependent: may collapse
        bad = []
        for key in set(exp) | set(got):
            el = sorted(exp.get(key, []), key=lambda x: x[0])
            gl = sorted(got.get(key, []))
            LOG.n("c13.notes_position_checked", len(el))
            if not _match(el, gl):
                bad.append((key, [(tuple(A), tuple(B), v, opt) for A, B, v, opt in el][:4], gl[:4]))
        if bad or oo["problems"]:
            fails.append(fail("group_notes", None, w={"group": gi, "tracks": g, "tpb": tpb, "mismatch": bad[:2], "problems": oo["problems"][:2]}))
        sigs = [e for e in oo["non"] if e[1] in (orc.TS, orc.KS)]
        if gi != target and sigs:
            fails.append(fail("signature_outside_meta_sequence", (gi, sigs[:2])))
    # signatures: every considered track's signatures on the meta sequence, in force at the right tick
    m = obs(out[target])
    horizon = max([o2["dur"] for o2 in map(obs, out)] + [1]) + 5
    exp_ts, exp_ks = [], []
    for k in sorted(considered):
        for e in case["tracks"][k]:
            if e[1] == "ts":
                exp_ts.append((near(e[0])[0], (e[3], e[4])))
                LOG.n("c13.signature_position_checked")
            elif e[1] == "ks":
                exp_ks.append((near(e[0])[0], MINOR.get(e[3], e[3])))
                LOG.n("c13.signature_position_checked")
    got_ts = orc.step_fn([(e[0], (e[5], e[6])) for e in m["non"] if e[1] == orc.TS], (4, 4), horizon)
    got_ks = orc.step_fn([(e[0], e[7]) for e in m["non"] if e[1] == orc.KS], "", horizon)
    if got_ts != orc.step_fn(exp_ts, (4, 4), horizon):
        fails.append(fail("time_signature_in_force", {"expected": orc.step_fn(exp_ts, (4, 4), horizon)[:5], "got": got_ts[:5], "tpb": tpb}))
    if got_ks != orc.step_fn(exp_ks, "", horizon):
        fails.append(fail("key_in_force", {"expected": orc.step_fn(exp_ks, "", horizon)[:5], "got": got_ks[:5]}))
    return {"nontrivial": tpb != 24 and nt >= 2, "fails": fails,
            "shape": (tpb, nt, len(groups), case["stratum"], case["long"], case["default_call"]),
            "observed": {"tpb": tpb, "groups": groups, "meta": meta, "target": target, "notes": [len(obs(o)["notes"]) for o in out]}}


class _Ev:
    """minimal message-like view of a generated file event for the sounding observer"""
    class _T:
        def __init__(self, v):
            self.value = v

    def __init__(self, e):
        self.message_type = _Ev._T("note_on" if e[1] == "on" else "note_off")
        self.channel, self.note = e[2], e[3]
        self.velocity = e[4] if e[1] == "on" else 0

"""C08 — split conserves duration, sound and events.  Deciding oracle: post-contract on the real
RelativeSequence.split."""
from vmon import gen
from vmon import oracle as orc
from vmon.checks.common import obs, fail, both_views, random_prefix, apply_prefix

EXTREMES = "seq"   # worker re-labels every sixth case to the ends of the legal ranges (gen.extremify)
RESTATE = "seq"    # worker adds a signature restating the one in force to every fifth case (gen.restate_signatures)
SPLIT_WAITS = "seq"   # worker: every fifth case is built from relative messages with rests split into adjacent waits
DEGEN = "seq"    # worker: every 37th case becomes a degenerate shape (gen.degenerate)
REJECTED = "prefix"    # worker: every thirteenth case starts with a call the library rejects (common.apply_prefix "rejected")
SCALE = True   # worker: every fortieth case is blown up by scale_case below
PROP = "C08"
MONITORS = ["split"]
INSITU = {"k": ""}
RULE = ("seeded well-formed sequences (1-3 channels sharing pitches, notes spanning several boundaries, control/program/"
        "signature events exactly on boundaries and on the final tick, leading/trailing rests) x capacity lists (random, "
        "equal to event ticks, summing exactly to / beyond the duration); the contract on the real split decides count / "
        "capacities / duration sum / closed at boundary / sound / re-strike velocity / events / source unchanged. "
        "Stratum A avoids the listed known-finding trigger (a key or time signature on the final tick; control and program "
        "changes there are part of it) and must be entirely clean; stratum B includes it. Non-trivial: >= 2 pieces and (a note cut at a boundary or an event on a boundary).")
PLAN = {"quick": {"cases": 6000, "jobs": 4, "timeout": 600},
        "thorough": {"cases": 2000000, "jobs": 16, "timeout": 3000, "budget_s": 360}}
FLOORS = {"quick": {"split.sound.armed": 4500, "c08.cut_note": 1500, "c08.event_on_boundary": 800, "c08.same_pitch_two_channels": 300,
                    "c08.control_event_on_final_tick_boundary": 150},
          "thorough": {"split.sound.armed": 100000, "c08.cut_note": 30000}}


def scale_case(case, i):
    import random
    r = random.Random(f"c08-big:{i}")
    sp = case["seq"]
    sp["notes"] = gen.big_notes(i, chans=(0, 1, 2), pitches=(60, 61, 62, 63), lmin=1, lmax=120, gap=(0, 60))
    end = gen.end_of({"notes": sp["notes"], "extra": []})
    sp["extra"] = [e for e in sp["extra"] if e[1] < 50] + [["cc", r.randrange(0, end), 0, 1 + k % 100, k % 120] for k in range(40)]
    sp.pop("pad", None)
    case["prefix"] = []
    case["caps"] = ([96] * r.randint(40, 400)) if r.random() < 0.5 else [r.choice([24, 48, 96, 72, 7, 1000]) for _ in range(r.randint(100, 500))]
    case["mode"] = "large"

class OneShot:
    """a one-shot iterator over the capacities (what iter(list) or a generator is to the library) that can still tell the monitor
    which values it was going to yield"""
    def __init__(self, values):
        self.verif_values = list(values)
        self._it = iter(list(values))

    def __iter__(self):
        return self

    def __next__(self):
        return next(self._it)


def make_case(rng, i, tier):
    stratum = "A" if i % 2 == 0 else "B"
    chans = rng.choice([(0,), (0,), (0, 1), (0, 1, 2)])
    pitches = tuple(60 + k for k in range(rng.randint(1, 3)))
    notes = gen.wf_notes(rng, rng.randint(0, 7), chans=chans, pitches=pitches, tmax=100, lmin=1, lmax=70)
    end = max([n[2] + n[3] for n in notes], default=0)
    pad = rng.randrange(0, 200) if rng.random() < 0.5 else None
    mode = rng.choice(["random", "small", "event_ticks", "exact", "beyond", "single"])
    total = max(end, pad or 0)
    if mode == "random":
        caps = [rng.choice([10, 20, 30, 40, 7, 96, 48]) for _ in range(rng.randint(1, 6))]
    elif mode == "small":
        caps = [rng.randint(1, 12) for _ in range(rng.randint(1, 10))]
    elif mode == "single":
        caps = [rng.choice([24, 48, 96, max(1, total), max(1, total - 1), total + 1])]
    else:
        ticks = sorted(set([n[2] for n in notes] + [n[2] + n[3] for n in notes] + [total]))
        ticks = [t for t in ticks if t > 0] or [10]
        cuts = sorted(set(rng.sample(ticks, min(len(ticks), rng.randint(1, 4)))))
        if mode == "exact" and total > 0 and total not in cuts:
            cuts.append(total)
        caps = [b - a for a, b in zip([0] + cuts, cuts)]
        if mode == "beyond":
            caps.append(rng.randint(1, 50))
        caps = [c for c in caps if c > 0] or [5]
    bounds = []
    t = 0
    for c in caps:
        t += c
        bounds.append(t)
    ticks = None
    if rng.random() < 0.6:
        ticks = [b for b in bounds if b <= total] + [0, total] + [rng.randrange(0, max(1, total + 1)) for _ in range(3)]
    extra = gen.rand_extras(rng, rng.randint(0, 4), max(1, total + 1), ticks=ticks, kinds=("cc", "cc", "pc", "ks", "ts"), chans=chans)
    extra = [e for e in extra if e[1] <= total]
    if stratum == "A":
        # no SIGNATURE on the final tick (the remaining known finding); control and program changes there must survive
        extra = [e for e in extra if e[1] < total or e[0] in ("cc", "pc")]
    spec = {"notes": notes, "extra": extra, "start": rng.choice(["abs", "rel", "both"])}
    if pad:
        spec["pad"] = pad
    prefix = [op for op in random_prefix(rng, n=(1, 2)) if op["op"] not in ("pad", "scale", "quantise", "quantise_same", "cutoff", "qnl")] \
        if (i % 5 == 4 and stratum == "B") else []
    if i % 11 == 7:
        # a pitch handed over between two channels exactly on a boundary that a wait fills exactly: the higher channel releases
        # the key on the tick the lower channel strikes it (in canonical order the note-on then precedes the note-off)
        import random
        r9 = random.Random(f"c08-handover:{i}")
        p0 = 70 + r9.randrange(0, 3)
        a, b = r9.randrange(0, 20), r9.randrange(24, 60)
        c = b + r9.randint(3, 40)
        spec["notes"] = [n for n in spec["notes"] if n[1] != p0] + [[1, p0, a, b - a, 91], [0, p0, b, c - b, 92]]
        caps = [b] + [r9.choice([7, 12, 30]) for _ in range(r9.randint(0, 2))]
        spec["extra"] = [e for e in spec["extra"] if e[1] < gen.end_of({"notes": spec["notes"], "extra": []})]
        spec["start"] = r9.choice(["abs", "rel", "both"])
        spec.pop("split_waits", None)
        mode = "handover"
    form = ["default", "copy_false", "default", "copy_true", "default", "copy_false_positional", "default", "rel_level", "copy_false",
            "rel_level_tuple"][(i // 2) % 10]
    if i % 17 == 3:
        # "any list of positive capacities" handed over as a one-shot iterator / generator / range-like object
        form = ["iter_caps", "gen_caps", "rel_level_iter", "numpy_caps"][(i // 17) % 4]
    case = {"seq": spec, "caps": caps, "stratum": stratum, "mode": mode, "prefix": prefix, "form": form}
    if i % 13 == 9:
        # the source is a motif concatenated with itself BY REFERENCE (Sequence.concatenate and Bar.to_sequence share the Message
        # objects of their operands): the same WAIT / note objects occur two or three times in the list that split walks through;
        # boundaries fall inside the first occurrence of the motif's rests
        import random
        r5 = random.Random(f"c08-motif:{i}")
        ml = r5.choice([48, 60, 96])
        a = r5.randrange(0, 12)
        case["motif"] = {"spec": {"notes": [[0, 64, a, r5.choice([6, 12]), 80]], "extra": [], "pad": ml, "start": "rel"}, "times": r5.randint(2, 3),
                         "onto_seq": r5.random() < 0.4}
        case["caps"] = [r5.randrange(a + 13, ml)] + [r5.choice([7, 24, 30, ml]) for _ in range(r5.randint(0, 3))]
        case["prefix"] = []
        case["mode"] = "motif"
    return case


def classify(f, case):
    """known finding: key / time signatures on the final tick are lost when that tick is a split boundary (control and
    program changes there are kept since fix 92dca25)"""
    if f.get("claim") != "split.events" or case.get("stratum") == "A":
        return None
    w = f.get("w") or {}
    if not isinstance(w, dict):
        return None
    if w.get("extra") or not w.get("missing"):
        return None
    if not w.get("final_tick_is_boundary"):
        return None
    if all(m[0] == w.get("duration") and m[1] in (orc.TS, orc.KS) for m in w["missing"]) \
            and w.get("n_missing") == w.get("n_missing_on_final_tick") == w.get("n_missing_signatures_on_final_tick"):
        return "final_tick_boundary_signature_dropped"
    return None


def run(case, ctx):
    from vmon.monitors import LOG
    s = gen.build_seq(case["seq"])
    s = apply_prefix(s, case.get("prefix", []))
    if case.get("motif"):
        from scoda.sequences.sequence import Sequence
        m0 = gen.build_seq(case["motif"]["spec"])
        if not case["motif"]["onto_seq"]:
            s = Sequence()
        s.concatenate([m0] * case["motif"]["times"])
        LOG.n("c08.motif_by_reference")
    before = obs(s)
    # call forms: default, explicit copy_messages=True / False (the pieces may then share Message objects with the source, but
    # the call itself must still leave the source as it was), positional, and the representation-level method
    form = case.get("form", "default")
    fails_form = []
    LOG.n("c08.call_form." + form)
    if form == "default":
        pieces = s.split(list(case["caps"]))
    elif form == "copy_true":
        pieces = s.split(capacities=list(case["caps"]), copy_messages=True)
    elif form == "copy_false":
        pieces = s.split(list(case["caps"]), copy_messages=False)
    elif form == "copy_false_positional":
        pieces = s.split(list(case["caps"]), False)
    elif form == "iter_caps":
        pieces = s.split(OneShot(case["caps"]))
    elif form == "gen_caps":
        pieces = s.split(c for c in OneShot(case["caps"]))     # a real generator: the contract is vacuous, the driver compares below
        ref = s.copy().split(list(case["caps"]))
        if [obs(p)["events"] for p in pieces] != [obs(p)["events"] for p in ref] or [obs(p)["dur"] for p in pieces] != [obs(p)["dur"] for p in ref]:
            fails_form = [fail("argument_form_changes_result", {"form": form, "durations": [obs(p)["dur"] for p in pieces][:6],
                                                                "list_form": [obs(p)["dur"] for p in ref][:6]})]
    elif form == "numpy_caps":
        import numpy as np
        pieces = s.split(list(np.array(case["caps"], dtype=np.int64)))
    elif form == "rel_level_iter":
        from scoda.sequences.sequence import Sequence
        pieces = [Sequence(relative_sequence=p) for p in s.rel.split(OneShot(case["caps"]))]
    else:
        from scoda.sequences.sequence import Sequence
        pieces = [Sequence(relative_sequence=p) for p in s.rel.split(tuple(case["caps"]) if form == "rel_level_tuple" else list(case["caps"]))]
    fails = list(fails_form)
    after = obs(s)
    if after["events"] != before["events"] or after["dur"] != before["dur"]:
        fails.append(fail("source_changed(sequence level)", None))
    ea, da, er, dr = both_views(s)
    if ea != er or da != dr or er != before["events"] or dr != before["dur"]:
        fails.append(fail("source_views_after_split", {"abs_dur": da, "rel_dur": dr, "before": before["dur"]}))
    bounds = set()
    t = 0
    for c in case["caps"]:
        t += c
        bounds.add(t)
    cut = any(any(n[2] < b < n[2] + n[3] for b in bounds) for n in before["notes"])
    evb = any(e[0] in bounds for e in before["non"])
    keys = {}
    for n in before["notes"]:
        keys.setdefault(n[1], set()).add(n[0])
    shared = any(len(v) > 1 for v in keys.values())
    if cut:
        LOG.n("c08.cut_note")
    if evb:
        LOG.n("c08.event_on_boundary")
    if shared:
        LOG.n("c08.same_pitch_two_channels")
    if before["dur"] in bounds and any(e[0] == before["dur"] and e[1] not in (orc.TS, orc.KS) for e in before["non"]):
        LOG.n("c08.control_event_on_final_tick_boundary")   # the mechanism repaired in 92dca25
    # independence probe (feeds C16; a shared object is an explanation, not by itself a violation here)
    return {"nontrivial": len(pieces) >= 2 and (cut or evb), "fails": fails,
            "shape": (case["stratum"], case["mode"], min(len(pieces), 4), cut, evb, shared),
            "observed": {"pieces": len(pieces), "durations": [obs(p)["dur"] for p in pieces][:8], "source": before["dur"]}}


def _corpus_body(rng, k):
    from vmon import corpus
    desc, w = corpus.window(rng, min_len=48, max_len=600)
    caps = [rng.choice([24, 48, 96, 72, 30, 7, 144]) for _ in range(rng.randint(1, 6))]
    desc["caps"] = caps
    ps = w.split(list(caps))
    return desc, len(ps) >= 2


def phases(tier):
    from vmon import corpus
    return [("corpus", corpus.phase(300, 20000, _corpus_body))]

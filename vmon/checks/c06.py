"""C06 — note-length quantisation.  Deciding oracle: post-contract on the real
AbsoluteSequence.quantise_note_lengths; driver supplies workloads and checks view agreement."""
from vmon import gen
from vmon.checks.common import wrapper_agrees, obs, fail, both_views, random_prefix, apply_prefix, same_then_edit

EXTREMES = "seq"   # worker re-labels every sixth case to the ends of the legal ranges (gen.extremify)
RESTATE = "seq"    # worker adds a signature restating the one in force to every fifth case (gen.restate_signatures)
SHUFFLE = "seq"    # worker: every seventh case is built by add_absolute_message in shuffled order
CANONICAL_ABS = True   # the function under test pairs / merges over the canonically sorted list (oracle.abs_order)
DEGEN = "seq"    # worker: every 37th case becomes a degenerate shape (gen.degenerate)
REJECTED = "prefix"    # worker: every thirteenth case starts with a call the library rejects (common.apply_prefix "rejected")
SCALE = True   # worker: every fortieth case is blown up by scale_case below
PROP = "C06"
MONITORS = ["qnl"]
INSITU = {"k": "quantise or composition or tokenisation or bar or track or example or transpose"}
RULE = ("seeded well-formed sequences (1-3 channels sharing pitches, back-to-back repeated pitches, notes shorter than "
        "the smallest value, control changes) x note-value lists x extension on/off; the contract on the real "
        "quantise_note_lengths decides allowed value / onset+velocity kept / no overlap / not extended / closest fit / "
        "removed only if nothing fits / non-notes untouched. Non-trivial: some duration changed or a note was removed.")
PLAN = {"quick": {"cases": 6000, "jobs": 4, "timeout": 600},
        "thorough": {"cases": 2000000, "jobs": 16, "timeout": 3000, "budget_s": 360}}
FLOORS = {"quick": {"qnl.closest_fit.armed": 5000, "qnl.removed_only_if_nothing_fits.armed": 200, "qnl.not_extended.armed": 2000},
          "thorough": {"qnl.closest_fit.armed": 100000, "qnl.removed_only_if_nothing_fits.armed": 5000}}
VALUES = [None, [24, 12, 6], [4, 8, 16], [24, 12, 6, 16, 8, 4, 36, 18, 9], [5], [3, 7, 30], [48, 2], [12]]


def scale_case(case, i):
    sp = case["seq"]
    sp["notes"] = gen.big_notes(i, chans=(0, 1, 2), pitches=(60, 61, 62, 63, 64), lmin=1, lmax=45, gap=(0, 30))
    if (i // 40) % 6 == 0:
        # a steady trill of two neighbouring pitches in one channel, thousands of notes, running past tick 2**16
        import random
        r = random.Random(f"c06-trill:{i}")
        notes, t = [], 0
        for k in range(r.choice([6200, 6600])):
            ln = r.choice([18, 19, 20, 21])                     # the same pitch returns every ~22 ticks
            notes.append([0, 61 + k % 2, t, ln, 1 + k % 127])
            t += 11
        sp["notes"] = notes
        case["values"], case["dne"] = [12, 24], False          # the closest value (24) does not fit before the next strike
    sp.pop("pad", None)
    case["prefix"] = []
    if (i // 41) % 2 == 1 and (i // 40) % 6 != 0:
        case["values"] = sorted(set(list(range(1, 40, 2)) + [48, 64, 72, 96, 128, 144, 192]), reverse=True)

def make_case(rng, i, tier):
    chans = rng.choice([(0,), (0,), (0, 1), (0, 1, 2), (3,)])
    pitches = tuple(rng.choice([60, 21, 105]) + k for k in range(rng.randint(1, 3)))
    nv = rng.choice(VALUES)
    if rng.random() < 0.15:
        nv = sorted(rng.sample(range(1, 60), rng.randint(1, 5)), reverse=rng.random() < 0.5)
    style = rng.choice(["random", "chains", "short", "chords"])
    lmax = {"random": 45, "chains": 30, "short": 4, "chords": 30}[style]
    notes = gen.wf_notes(rng, rng.randint(1, 9), chans=chans, pitches=pitches, tmax=110, lmin=1, lmax=lmax)
    if style == "chains":
        # back-to-back repeated pitches: chain notes directly after existing ones where free
        busy = {}
        for c, p, on, ln, v in notes:
            busy.setdefault((c, p), []).append((on, on + ln))
        for c, p, on, ln, v in list(notes)[:4]:
            s, l2 = on + ln + rng.choice([0, 0, 1, 2]), rng.randint(1, 20)
            if all(s + l2 <= a or s >= b for a, b in busy[(c, p)]):
                busy[(c, p)].append((s, s + l2))
                notes.append([c, p, s, l2, 1 + (len(notes) * 11) % 126])
    if style == "chords":
        # notes of different pitch sharing onset and end in one channel, some of the pitches struck again soon after
        notes = []
        pool = [60, 64, 67, 72]
        t = 0
        for _ in range(rng.randint(1, 3)):
            c = rng.choice(chans)
            ln = rng.randint(3, 30)
            ps = rng.sample(pool, rng.randint(2, 3))
            for pp in ps:
                notes.append([c, pp, t, ln, 1])
            gap = rng.choice([0, 1, 2, 5])
            for pp in rng.sample(ps, rng.randint(1, len(ps))):
                notes.append([c, pp, t + ln + gap, rng.randint(2, 25), 1])
            t += ln + gap + 30
    vs = list(range(1, 128))
    rng.shuffle(vs)
    notes = [[c, p, on, ln, vs[j]] for j, (c, p, on, ln, v) in enumerate(notes)]
    extra = gen.rand_extras(rng, rng.randint(0, 2), 150, kinds=("cc", "pc", "ts", "ks"), chans=chans)
    spec = {"notes": notes, "extra": extra, "start": rng.choice(["abs", "rel", "both"])}
    if rng.random() < 0.3:
        spec["pad"] = rng.randrange(0, 220)
    dne = rng.random() < 0.5
    prefix = []
    if i % 4 == 3:
        prefix = same_then_edit(rng, {"op": "qnl", "values": nv, "dne": dne}) if rng.random() < 0.4 else random_prefix(rng, n=(1, 3))
    if i % 7 == 5 and nv:
        # "any list of allowed values": a list may name a value twice (in any position)
        nv = [list(nv) + [nv[0]], [nv[-1]] + list(nv), list(nv) + list(nv), [nv[0]] + list(nv) + [max(nv)]][(i // 7) % 4]
        prefix = [dict(op, values=nv) if op.get("op") == "qnl" and "values" in op else op for op in prefix]
    return {"seq": spec, "values": nv, "dne": dne, "style": style, "prefix": prefix}


def run(case, ctx):
    s = gen.build_seq(case["seq"])
    s = apply_prefix(s, case.get("prefix", []))
    before = obs(s)
    twin = s.copy()
    if case["values"] is not None and len(set(case["values"])) < len(case["values"]):
        from vmon.monitors import LOG as _L
        _L.n("c06.value_list_with_repeated_entries")
    if case["values"] is None:
        s.quantise_note_lengths(do_not_extend=case["dne"])
    else:
        s.quantise_note_lengths(list(case["values"]), do_not_extend=case["dne"])
    after = obs(s)
    fails = []

    def inner(t):
        t.abs.quantise_note_lengths(None if case["values"] is None else list(case["values"]), do_not_extend=case["dne"])
        t.invalidate_rel()
    fails += wrapper_agrees(twin, inner, after, "quantise_note_lengths")
    ea, da, er, dr = both_views(s)
    if ea != er or da != dr:
        fails.append(fail("views_disagree_after_qnl", (da, dr)))
    removed = len(before["notes"]) - len(after["notes"])
    changed = before["notes"] != after["notes"]
    return {"nontrivial": changed, "fails": fails,
            "shape": (len(set(n[0] for n in case["seq"]["notes"])), case["style"], case["dne"], min(removed, 2),
                      "default" if case["values"] is None else len(case["values"])),
            "observed": {"before": len(before["notes"]), "after": len(after["notes"])}}


def _corpus_body(rng, k):
    from vmon import corpus
    desc, w = corpus.window(rng, min_len=48, max_len=500)
    if rng.random() < 0.6:
        w.quantise()
    nv = rng.choice(VALUES)
    dne = rng.random() < 0.5
    desc.update(values=nv, dne=dne)
    before = obs(w)
    if nv is None:
        w.quantise_note_lengths(do_not_extend=dne)
    else:
        w.quantise_note_lengths(list(nv), do_not_extend=dne)
    return desc, obs(w)["notes"] != before["notes"]


def phases(tier):
    from vmon import corpus
    return [("corpus", corpus.phase(300, 20000, _corpus_body))]

"""C01 — tokenise -> encode -> decode -> detokenise reproduces every valid piece.  Differential monitor at the API
boundary of the real tokeniser: notes per track (velocity replaced by its bin value), bar grid (signatures in force
+ the cap ticks detokenise places at bar tokens) and total duration are compared with an independent observation of
the source taken before the call.  The tokenise contract (closure, integer tick tokens) runs alongside."""
from vmon import gen
from vmon import oracle as orc
from vmon.checks import tokcommon as tc
from vmon.checks.common import obs, fail

SHUFFLE_EVERY = 3
SHUFFLE = "piece.tracks"    # worker: every seventh case is built by add_absolute_message in shuffled order
CANONICAL_ABS = True   # the function under test pairs / merges over the canonically sorted list (oracle.abs_order)
TRACK_CHANNELS = "piece"   # worker: every fourth case moves each track's notes to another channel
SCALE = True   # worker: every fortieth case (or SCALE_EVERY-th) is blown up by scale_case below
PROP = "C01"
MONITORS = ["tokenise"]
ALSO = ("C02",)   # a token outside the vocabulary makes encode fail: observed here with its precise cause
INSITU = {"k": "tokenisation"}
TECHNIQUE = "runtime monitoring: differential observer across the real tokenise/encode/decode/detokenise chain + token contract, seeded valid pieces x configurations"
RULE = ("seeded valid pieces (1-4 single-channel tracks, pitches in range, durations among the note values, signatures "
        "expressible in eighths on bar lines, every rest segment a sum of step sizes) x configurations (16 flag combinations x "
        "velocity bins x tracks x pitch ranges x note-value sets x step-size sets). Stratum A: whole-bar padded pieces whose rest "
        "segments decompose largest-step-first, regular bin counts; stratum B: ragged pieces and segments that only a "
        "non-largest-first decomposition bridges (9 = 6 + 3) — both must be entirely clean. Stratum V: irregular bin counts "
        "(known findings). Non-trivial: >= 2 notes "
        "and a rest crossing a bar line or a signature change.")
PLAN = {"quick": {"cases": 2400, "jobs": 4, "timeout": 600},
        "thorough": {"cases": 2000000, "jobs": 16, "timeout": 3000, "budget_s": 360}}
FLOORS = {"quick": {"c01.roundtrips_compared": 1500, "#c01.flags.": 16, "c01.notes_compared": 8000, "c01.bar_lines_compared": 4000,
                    "c01.signature_change": 500, "c01.piece_needing_non_greedy_rests": 50},
          "thorough": {"c01.roundtrips_compared": 80000, "#c01.flags.": 16}}


def scale_case(case, i):
    """more tracks than a MIDI port has channels, or many sparsely filled bars (silences of many bars inside one call)"""
    import random
    r = random.Random(f"c01-big:{i}")
    cfg = case["cfg"]
    if case["stratum"] == "V":
        return
    if (i // 40) % 2 == 0:
        big = dict(cfg, tracks=r.choice([17, 20, 24]))
        pc = tc.valid_piece(r, big, stratum="A" if case["stratum"] == "A" else "B", max_notes=3)
        if pc is not None:
            cfg["tracks"] = big["tracks"]
    else:
        pc = tc.valid_piece(r, cfg, stratum="A" if case["stratum"] == "A" else "B", nseg=(1, 2), nbars=(10, 30), max_notes=3)
    if pc is not None:
        case["piece"] = pc

def make_case(rng, i, tier):
    r = i % 10
    stratum = "A" if r < 6 else ("B" if r < 9 else "V")
    cfg = tc.rand_cfg(rng, i=(i // 10) % 16, bins=rng.choice(tc.BINS_IRREGULAR) if stratum == "V" else None)
    if stratum != "V" and cfg["bins"] not in tc.BINS_REGULAR:
        cfg["bins"] = 1
    if stratum == "V":
        cfg["pitch"] = [60, 64]
    piece = tc.valid_piece(rng, cfg, stratum="A" if stratum in ("A", "V") else "B")
    if piece is not None and i % 3 == 1:
        # legato repetitions: a note of the same pitch starting on the very tick the previous one ends (the note-off and the
        # note-on of one key share a tick; which of them the library sees first is a matter of its canonical order)
        import copy
        import random
        r7 = random.Random(f"c01-legato:{i}")
        trial = copy.deepcopy(piece)
        added = 0
        for t in trial["tracks"]:
            for n in list(t["notes"])[:3]:
                v = r7.choice(tc.values_of(cfg))
                cand = [n[0], n[1], n[2] + n[3], v, r7.randint(1, 127)]
                if all(not (x[1] == cand[1] and not (cand[2] + cand[3] <= x[2] or cand[2] >= x[2] + x[3])) for x in t["notes"]):
                    t["notes"].append(cand)
                    added += 1
        if added:
            info = tc.analyse(trial, cfg)
            ok = info["valid"] and (stratum == "B" or (info["greedy_safe"] and info["duration_ok"] and not info["clock_short"]))
            if ok and all(n[2] + n[3] <= trial["total"] or stratum == "B" for t in trial["tracks"] for n in t["notes"]):
                trial["info"] = info
                piece = trial
    if i % 13 == 8 and stratum in ("A", "B"):
        tw = tc.twin_rest_piece(cfg, i)
        if tw is not None:
            piece = tw
    # every ninth case: the tokeniser instance is first handed something it rejects (it raises); what the rejected call leaves behind
    # on the instance must not reach the legal round trip that follows
    return {"cfg": cfg, "piece": piece, "stratum": stratum,
            "warmup": ["offgrid", "bad_pitch", "wrong_count", "detok_garbage", "encode_unknown"][(i // 9) % 5] if i % 9 == 2 else None}


def classify(f, case):
    st = case.get("stratum")
    info = (case.get("piece") or {}).get("info") or {}
    claim = f.get("claim", "")
    w = f.get("w") if isinstance(f.get("w"), dict) else {}
    if st == "V":
        if claim in ("tokenise_raises.IndexError", "vocabulary_size_mismatch", "tokeniser_construction_raises",
                     "encode_keyerror", "velocity_above_top_bin"):
            return "irregular_velocity_bin_count"
        return None
    return None


def run(case, ctx):
    from vmon.monitors import LOG
    cfg, piece, st = case["cfg"], case["piece"], case["stratum"]
    fails = []
    if piece is None:
        LOG.n("c01.no_valid_piece_generated")
        return {"nontrivial": False, "fails": [], "shape": ("none",)}
    try:
        tok = tc.make_tok(cfg)
    except Exception as e:
        return {"nontrivial": False, "fails": [fail("tokeniser_construction_raises", f"{type(e).__name__}: {e}")], "shape": ("ctor",)}
    if tok.dictionary_size != len(tok.dictionary):
        fails.append(fail("vocabulary_size_mismatch", (tok.dictionary_size, len(tok.dictionary))))
    seqs = [gen.build_seq(t) for t in piece["tracks"]]
    LOG.n("c01.flags." + "".join("1" if x else "0" for x in cfg["flags"]))
    if piece.get("twin_rest"):
        LOG.n("c01.twin_rest_piece")
    if not (piece.get("info") or {}).get("greedy_safe", True):
        LOG.n("c01.piece_needing_non_greedy_rests")
    shape = (st, "".join("1" if x else "0" for x in cfg["flags"]), cfg["tracks"], cfg["bins"], len(piece["ts"]))
    src_ts = [(t, (n, d)) for (t, n, d) in piece["ts"]]
    if case.get("warmup") and st != "V":
        _rejected_first(tok, seqs, cfg, case["warmup"])
    f2, res = compare_roundtrip(tok, seqs, src_ts, info=piece.get("info"))
    fails += f2
    if res is None:
        return {"nontrivial": False, "fails": fails, "shape": shape}
    src, D, Dout, toks, grid = res["src"], res["D"], res["Dout"], res["toks"], res["grid"]
    nn = sum(len(s["notes"]) for s in src)
    sigchange = len(piece["ts"]) > 1
    if sigchange:
        LOG.n("c01.signature_change")
    barlines = set(g[0] for g in grid[1:])
    onsets = sorted(set(n[2] for s in src for n in s["notes"]))
    crossing = any(any(a < b < c for b in barlines) for a, c in zip([0] + onsets, onsets + [D]))
    return {"nontrivial": nn >= 2 and (crossing or sigchange), "fails": fails, "shape": shape,
            "observed": {"tokens": len(toks), "notes": nn, "bars": len(grid), "duration": (D, Dout), "first_tokens": toks[:8]}}


def _rejected_first(tok, seqs, cfg, kind):
    """one call on `tok` that the tokeniser is expected to reject"""
    from vmon.monitors import LOG
    from scoda.elements.message import Message
    from scoda.enumerations.message_type import MessageType as MT
    from scoda.sequences.sequence import Sequence
    try:
        cps = [s.copy() for s in seqs]
        if kind == "offgrid":
            # every onset of track 0 one tick late: off every step grid unless the configuration has step 1
            sh = Sequence()
            sh.pad(1)
            sh.concatenate([cps[0]])
            cps[0] = sh
            tok.tokenise(cps)
        elif kind == "bad_pitch":
            lo, hi = cfg["pitch"]
            badp = hi + 1 if hi < 127 else lo - 1
            D = max(obs(s)["dur"] for s in seqs)
            chn = next((m.channel for m in cps[0].abs._messages if m.message_type == MT.NOTE_ON), 0)
            cps[0].add_absolute_message(Message(message_type=MT.NOTE_ON, channel=chn, note=max(0, badp), velocity=64, time=max(0, D - 1)))
            cps[0].add_absolute_message(Message(message_type=MT.NOTE_OFF, channel=chn, note=max(0, badp), time=max(1, D)))
            tok.tokenise(cps)
        elif kind == "wrong_count":
            tok.tokenise(cps + [cps[0].copy()])
        elif kind == "detok_garbage":
            tok.detokenise(["bar", "no_such_token", "rst_1x"])
        else:
            tok.encode(["bar", "no_such_token"])
        LOG.n("c01.rejected_first.accepted." + kind)
    except Exception:
        LOG.n("c01.rejected_first.raised." + kind)


def compare_roundtrip(tok, seqs, src_ts, info=None):
    """tokenise -> encode -> decode -> detokenise on copies of `seqs`; returns (fails, observations or None)"""
    from vmon.monitors import LOG
    fails = []
    bins = list(tok.velocity_bins)
    src = [obs(s) for s in seqs]
    D = max(o["dur"] for o in src)
    try:
        toks = tok.tokenise([s.copy() for s in seqs])
    except Exception as e:
        fails.append(fail(f"tokenise_raises.{type(e).__name__}", None, w={"msg": str(e)[:200], "info": info}))
        return fails, None
    try:
        ids = tok.encode(toks)
    except KeyError as e:
        fails.append(fail("encode_keyerror", str(e)))
        return fails, None
    back = tok.decode(ids)
    if back != toks or not all(type(x) is int for x in ids):
        fails.append(fail("decode_encode_not_identity", None))
    try:
        out = tok.detokenise(back)
    except Exception as e:
        fails.append(fail(f"detokenise_raises.{type(e).__name__}", str(e)[:200]))
        return fails, None
    LOG.n("c01.roundtrips_compared")
    if len(out) != len(seqs):
        fails.append(fail("track_count", (len(seqs), len(out))))
    for k, (s0, o) in enumerate(zip(src, out)):
        exp = []
        for (c, p, on, d, v) in s0["notes"]:
            bv = orc.bin_value(v, bins)
            if bv is None:
                fails.append(fail("velocity_above_top_bin", (v, bins[-3:])))
            exp.append((p, on, d, bv))
        oo = obs(o)
        got = sorted((p, on, d, v) for (c, p, on, d, v) in oo["notes"])
        LOG.n("c01.notes_compared", len(exp))
        e2 = sorted(exp, key=lambda x: tuple(-1 if y is None else y for y in x))
        if got != e2:
            fails.append(fail("notes", {"track": k, "missing": [x for x in e2 if x not in got][:3], "extra": [x for x in got if x not in e2][:3]}))
    # bar grid: signatures in force + caps at bar tokens
    grid = orc.bar_grid(src_ts, D)
    o0 = obs(out[0])
    out_ts = [(e[0], (e[5], e[6])) for e in o0["non"] if e[1] == orc.TS]
    Dout = max(obs(o)["dur"] for o in out)
    try:
        ogrid = orc.bar_grid(out_ts, max(D, 1))
        if [(g[0], g[1]) for g in ogrid] != [(g[0], g[1]) for g in orc.bar_grid(src_ts, max(D, 1))]:
            fails.append(fail("bar_grid", {"source": [(g[0], g[1]) for g in grid][:6], "output": [(g[0], g[1]) for g in ogrid][:6]}))
    except ValueError as e:
        fails.append(fail("bar_grid", str(e)))
    ends = sorted(g[0] + g[1] for g in grid)
    LOG.n("c01.bar_lines_compared", len(ends))
    for k, o in enumerate(out):
        caps = sorted(m.time for m in o.abs._messages if m.message_type.value == "internal")
        if caps != ends:
            fails.append(fail("bar_caps", {"track": k, "expected": ends[:8], "caps": caps[:8],
                                           "missing": [x for x in ends if x not in caps][:8], "extra": [x for x in caps if x not in ends][:8]}))
            break
    expD = ends[-1] if ends else 0
    if Dout != expD:
        fails.append(fail("duration", {"expected": expD, "got": Dout, "source": D}))
    return fails, {"src": src, "D": D, "Dout": Dout, "toks": toks, "grid": grid, "out": out}


def _corpus_body(rng, k):
    from vmon import corpus
    from vmon.monitors import LOG
    from scoda.elements.bar import Bar
    from scoda.sequences.sequence import Sequence
    fs = corpus.files()
    f = fs[k % len(fs)]
    name, seqs = corpus.pipeline_piece(f)
    if k >= len(fs):
        d = max(corpus.duration(s) for s in seqs)
        cut = rng.randrange(192, max(193, min(d, 4000)))
        seqs = [s.split([cut])[0] if corpus.duration(s) > cut else s for s in seqs]
    tb = Sequence.sequences_split_bars(seqs, 0)
    proc = [Bar.to_sequence([b for b in trk]) for trk in tb]
    cfg = tc.rand_cfg(rng, i=(k // len(fs)) % 16)
    cfg.update(tracks=len(proc), pitch=[21, 108], steps=None, values=None)
    cfg["bins"] = rng.choice([1, 2, 4, 8])
    tok = tc.make_tok(cfg)
    o0 = obs(proc[0])
    src_ts = [(e[0], (e[5], e[6])) for e in o0["non"] if e[1] == orc.TS]
    fails, res = compare_roundtrip(tok, proc, src_ts)
    for fl in fails:
        LOG.rec("C01", "corpus_roundtrip", fl["claim"], False, fl.get("w"))
    return {"file": name, "cfg": {k2: cfg[k2] for k2 in ("flags", "bins", "tracks")}, "bars": len(tb[0])}, res is not None


def phases(tier):
    from vmon import corpus
    return [("corpus", corpus.phase(7, 7 * 48, _corpus_body))]

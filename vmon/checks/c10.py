"""C10 — a Bar lasts exactly its signature or construction fails.  Deciding oracle: the class invariant on the
real Bar (fires after __init__ and around every public method) + the driver's accept/reject expectation computed
from the arguments by the oracle."""
from fractions import Fraction

from vmon import gen
from vmon import oracle as orc
from vmon.checks.common import obs, fail, random_prefix, apply_prefix

SPLIT_WAITS = "seq"   # worker: every fifth case is built from relative messages with rests split into adjacent waits
DEGEN = "seq"    # worker: every 37th case becomes a degenerate shape (gen.degenerate)
DRUMS = "seq"    # worker: every eleventh case is moved onto channel 9 / 15 (gen.relabel_channels)
REJECTED_EVERY = 7
REJECTED = "prefix"    # worker: every thirteenth case starts with a call the library rejects (common.apply_prefix "rejected")
SCALE = True   # worker: every fortieth case (or SCALE_EVERY-th) is blown up by scale_case below
PROP = "C10"
MONITORS = ["bar_inv"]
INSITU = {"k": "bar or track or composition or tokenisation or scale"}
RULE = ("seeded (sequence, numerator 1-16, denominator in {1,2,4,8,16}, key) combinations: sequences shorter than / equal "
        "to / 1 tick and many ticks longer than the capacity, with 0 / one matching (tick 0 or mid-bar) / one conflicting "
        "/ two equal / two different signature events, well-formed and ill-formed note material; the Bar class invariant "
        "decides duration and the single leading signature of every constructed bar, the driver decides rejection of "
        "over-long or conflicting input, the exception type, and copy equality. Padded, exact and rejected "
        "constructions are counted as separate classes; non-trivial = any of those three reached with notes present "
        "or a signature event present.")
PLAN = {"quick": {"cases": 6000, "jobs": 4, "timeout": 600},
        "thorough": {"cases": 2000000, "jobs": 16, "timeout": 3000, "budget_s": 360}}
FLOORS = {"quick": {"bar_inv.duration.armed": 4000, "c10.rejected_overlong": 500, "c10.padded": 800, "c10.exact": 300,
                    "c10.rejected_signature": 400, "c10.copy_checked": 1500},
          "thorough": {"bar_inv.duration.armed": 100000, "c10.rejected_overlong": 10000}}
DENS = [1, 2, 4, 8, 16]


def scale_case(case, i):
    """a bar holding several hundred messages (very short notes on eight keys), with the usual signature situations"""
    import random
    r = random.Random(f"c10-dense:{i}")
    cap = 96 * case["num"] // case["den"]
    if cap < 40 or case.get("soup") or case.get("motif"):
        return
    target = {"short": cap - r.randint(1, 6), "exact": cap, "plus1": cap + 1, "long": cap + r.randint(2, 50)}.get(case["length"], cap - 2)
    notes = []
    for c in (0, 1):
        for p in (60, 62, 64, 65):
            t = r.randrange(0, 3)
            while t + 2 <= target:
                ln = r.choice([1, 1, 2])
                notes.append([c, p, t, ln, 1 + len(notes) % 127])
                t += ln + r.choice([0, 1, 1, 2])
    sp = case["seq"]
    sp["notes"] = notes
    sp.pop("hanging", None)
    sp["extra"] = [e for e in sp["extra"] if e[1] <= target]
    if target > gen.end_of(sp):
        sp["pad"] = target
    case["prefix"] = []

def make_case(rng, i, tier):
    num, den = rng.randint(1, 16), rng.choice(DENS)
    if rng.random() < 0.4:
        num, den = rng.choice([(4, 4), (3, 4), (6, 8), (2, 2), (12, 8), (7, 8), (5, 4)])
    cap = 96 * num // den
    length = rng.choice(["short", "short", "exact", "plus1", "long", "empty", "quarters_bug"])
    target = {"short": rng.randrange(0, max(1, cap)), "exact": cap, "plus1": cap + 1, "long": cap + rng.randint(2, 300),
              "empty": 0, "quarters_bug": rng.randint(cap + 1, max(cap + 2, cap * 20))}[length]
    chans = rng.choice([(0,), (0, 1)])
    notes = []
    if target > 0 and length != "empty":
        notes = gen.wf_notes(rng, rng.randint(0, 5), chans=chans, pitches=(60, 62, 64), tmax=target, lmin=1,
                             lmax=max(1, min(40, target)), tend=target)
    sigmode = rng.choice(["none", "none", "match0", "match_mid", "conflict", "two_equal", "two_diff", "conflict_den",
                          "same_tick_conflict_then_match", "same_tick_match_then_conflict"])
    extra = []
    mid = rng.randrange(0, max(1, min(target, cap))) if target > 0 else 0
    other = (num % 16 + 1, den)
    if sigmode == "match0":
        extra.append(["ts", 0, num, den])
    elif sigmode == "match_mid":
        extra.append(["ts", mid, num, den])
    elif sigmode == "conflict":
        extra.append(["ts", rng.choice([0, mid]), other[0], other[1]])
    elif sigmode == "conflict_den":
        extra.append(["ts", 0, num, DENS[(DENS.index(den) + 1) % len(DENS)]])
    elif sigmode == "same_tick_conflict_then_match":
        t0 = rng.choice([0, mid])
        extra += [["ts", t0, other[0], other[1]], ["ts", t0, num, den]]
    elif sigmode == "same_tick_match_then_conflict":
        t0 = rng.choice([0, mid])
        extra += [["ts", t0, num, den], ["ts", t0, other[0], other[1]]]
    elif sigmode == "two_equal":
        extra += [["ts", 0, num, den], ["ts", mid, num, den]]
    elif sigmode == "two_diff":
        extra += [["ts", 0, num, den], ["ts", mid, other[0], other[1]]]
    if rng.random() < 0.3:
        extra += gen.rand_extras(rng, 1, max(1, target), kinds=("cc", "ks", "pc"), chans=chans)
    spec = {"notes": notes, "extra": extra, "start": rng.choice(["abs", "rel", "both"])}
    if target > gen.end_of(spec):
        spec["pad"] = target
    if i % 6 == 2 and target > 0:
        # "any sequence": 2-3 notes that are struck and never released (the constructor normalises first and has to judge length
        # and signatures of what remains), on pitches / channels that may have sounded and been closed earlier
        import random
        r2 = random.Random(f"c10-hanging:{i}")
        spec["hanging"] = [[r2.choice(chans), r2.choice((60, 62, 64)), r2.randrange(0, target + 1), 50 + k]
                           for k in range(r2.randint(2, 3))]
    if i % 12 == 5:
        # exactly as long as the bar, with a signature on the closing tick (after the last rest): a conflicting one, or a second
        # one behind a leading matching one, must be rejected like anywhere else in the bar
        import random
        r4 = random.Random(f"c10-closing:{i}")
        length, target = "exact", cap
        notes = gen.wf_notes(r4, r4.randint(0, 4), chans=chans, pitches=(60, 62, 64), tmax=max(1, cap - 1), lmin=1, lmax=max(1, min(30, cap)), tend=cap)
        mode = r4.choice(["closing_conflict", "leading_match_closing_second", "closing_match_only"])
        extra = {"closing_conflict": [["ts", cap, other[0], other[1]]],
                 "leading_match_closing_second": [["ts", 0, num, den], ["ts", cap, num, den]],
                 "closing_match_only": [["ts", cap, num, den]]}[mode]
        sigmode = mode
        spec = {"notes": notes, "extra": extra, "start": r4.choice(["abs", "rel", "both"])}
    soup = None
    if rng.random() < 0.12:
        soup = [["on", 0, 60, 9], ["wait", rng.randint(1, max(1, cap))], ["on", 0, 60, 9], ["off", 0, 61], ["wait", 3]]
    motif = None
    if rng.random() < 0.12:
        # the same motif concatenated by reference several times (the library's own concatenate / Bar.to_sequence share
        # message objects): a legal sequence in which one Message object occurs more than once
        ml = rng.choice([12, 24, 36])
        motif = {"spec": {"notes": [[0, 64, 0, rng.choice([6, 12]), 80]], "extra": [], "pad": ml, "start": "rel"}, "times": rng.randint(2, 5)}
    return {"seq": spec, "num": num, "den": den, "key": rng.choice(gen.KEYS + [None, None]), "length": length, "motif": motif,
            "sigmode": sigmode, "soup": soup,
            "prefix": [op for op in random_prefix(rng, n=(1, 2)) if op["op"] not in ("scale", "pad")] if i % 4 == 3 else []}


def run(case, ctx):
    from vmon.monitors import LOG
    from scoda.elements.bar import Bar
    from scoda.exceptions.bar_exception import BarException
    from scoda.misc.music_theory import Key
    num, den = case["num"], case["den"]
    cap = Fraction(96 * num, den)
    s = gen.raw_rel_seq(case["soup"]) if case["soup"] else gen.build_seq(case["seq"])
    if case.get("motif"):
        from scoda.sequences.sequence import Sequence
        m0 = gen.build_seq(case["motif"]["spec"])
        s = Sequence()
        s.concatenate([m0] * case["motif"]["times"])
        LOG.n("c10.motif_by_reference")
    s = apply_prefix(s, case.get("prefix", []))
    o = obs(s)
    if o is None:
        # neither view of the sequence is fresh after a history of public calls: no legal Bar construction can succeed on it
        try:
            Bar(s, num, den)
            why = "constructed"
        except Exception as e:
            why = f"{type(e).__name__}: {e}"
        return {"nontrivial": False, "shape": ("unreadable",),
                "fails": [fail("sequence_unreadable_before_bar_construction", {"prefix": case.get("prefix"), "bar_construction": why})]}
    dur = o["dur"]
    sigs = [(e[0], e[5], e[6]) for e in o["non"] if e[1] == orc.TS]
    fails = []
    key = Key(case["key"]) if case["key"] else None
    bar = None
    rejected = None
    try:
        bar = Bar(s, num, den, key)
    except BarException as e:
        rejected = str(e)
    except Exception as e:
        fails.append(fail("non_bar_exception", f"{type(e).__name__}: {e}"))
        rejected = "other"
    conflicting = any((n, d) != (num, den) for (_, n, d) in sigs)
    distinct_sigs = len(set((n, d) for (_, n, d) in sigs))
    must_reject = dur > cap or conflicting or distinct_sigs > 1
    if must_reject and bar is not None:
        fails.append(fail("accepted_invalid_input", {"duration": dur, "capacity": str(cap), "signatures": sigs[:3], "bar": (num, den)}))
    if rejected:
        if dur > cap:
            LOG.n("c10.rejected_overlong")
        if conflicting or distinct_sigs > 1:
            LOG.n("c10.rejected_signature")
        if not must_reject and rejected != "other":
            LOG.n("c10.rejected_valid_input(not part of the claim)")
    klass = "rejected"
    if bar is not None:
        ob = obs(bar.sequence)
        klass = "exact" if dur == cap else "padded"
        LOG.n("c10." + klass)
        if (bar.time_signature_numerator, bar.time_signature_denominator) != (num, den):
            fails.append(fail("bar_signature_attribute", None))
        # notes of the input survive bar construction (normalise may fuse ill-formed material only)
        if not o["problems"] and ob["notes"] != o["notes"]:
            fails.append(fail("bar_changed_notes", {"in": o["notes"][:4], "bar": ob["notes"][:4]}))
        cp = bar.copy()
        LOG.n("c10.copy_checked")
        oc = obs(cp.sequence)
        same = (oc["events"] == ob["events"] and oc["dur"] == ob["dur"]
                and (cp.time_signature_numerator, cp.time_signature_denominator) == (num, den)
                and orc.keyval(cp.key_signature) == orc.keyval(bar.key_signature))
        if not same:
            fails.append(fail("copy_not_equal", {"bar": ob["events"][:4], "copy": oc["events"][:4], "dur": (ob["dur"], oc["dur"])}))
        if cp.sequence is bar.sequence:
            fails.append(fail("copy_shares_sequence", None))
        bar.is_empty()  # a public method: fires the invariant once more on the finished bar
    return {"nontrivial": bool(o["notes"]) or bool(sigs), "fails": fails,
            "shape": (klass, case["length"], case["sigmode"], den, bool(case["soup"])),
            "observed": {"duration": dur, "capacity": str(cap), "class": klass, "rejected": rejected}}

"""shared by the tokeniser checks C01/C02/C03/C19: configurations, valid-piece generation, oracle-side notions
(greedy / coin decomposition of rests, expected vocabulary)"""
import itertools

from vmon import gen
from vmon import oracle as orc

DEFAULT_STEPS = [2, 3, 4, 6, 8, 12, 16, 24]
DEFAULT_VALUES = [4, 6, 8, 9, 12, 16, 18, 24, 36]
STEPSETS = [None, [6, 12, 24], [4, 8, 16], [3, 6, 12, 24], [12], [2, 4, 8, 16, 32], [24, 6, 12], [8, 2, 16, 4]]   # any order
VALUESETS = [None, [6, 12, 24, 48], [4, 8, 16, 32], [3, 6, 9, 12, 24, 36], [12, 24], [1, 2, 3, 4, 6], [2, 4, 8, 96], [24, 6, 48, 12],
             [36, 12, 3, 9, 24, 6]]   # any order
PITCHRANGES = [(21, 108), (60, 72), (0, 127), (60, 60), (36, 47)]
SIGS_OK = [(8, 8), (4, 4), (3, 4), (6, 8), (2, 4), (5, 4), (2, 2), (7, 8), (12, 8), (9, 8), (3, 8), (2, 8), (16, 8), (1, 4)]
BINS_REGULAR = [n for n in range(1, 128) if orc.regular_bins(n)]
BINS_IRREGULAR = [n for n in range(1, 140) if not orc.regular_bins(n)]
_CACHE = {}


def cfg_key(cfg):
    return (cfg["tracks"], tuple(cfg["flags"]), cfg["bins"], tuple(cfg["pitch"]), tuple(cfg["steps"] or ()), tuple(cfg["values"] or ()),
            tuple(cfg.get("tsr") or (2, 16)), cfg.get("ppqn"), cfg.get("simplify", True))


def make_tok(cfg, cache=True):
    from scoda.tokenisation.notelike_tokenisation import MultiTrackLargeVocabularyNotelikeTokeniser as Tok
    k = cfg_key(cfg)
    if cache and k in _CACHE:
        return _CACHE[k]
    kw = dict(num_tracks=cfg["tracks"], pitch_range=tuple(cfg["pitch"]), velocity_bins=cfg["bins"], ppqn=cfg.get("ppqn"),
              time_signature_range=tuple(cfg.get("tsr") or (2, 16)),
              flag_running_values=cfg["flags"][0], flag_fuse_track=cfg["flags"][1], flag_fuse_value=cfg["flags"][2],
              flag_fuse_velocity=cfg["flags"][3], flag_simplify_time_signature=cfg.get("simplify", True))
    if cfg["steps"]:
        kw["step_sizes"] = list(cfg["steps"])
    if cfg["values"]:
        kw["note_values"] = list(cfg["values"])
    t = Tok(**kw)
    if cache:
        if len(_CACHE) > 40:
            _CACHE.clear()
        _CACHE[k] = t
    return t


def rejected_constructor(cfg, kind):
    """a constructor call with (nearly) the configuration `cfg` that the tokeniser is expected to reject; returns True if it raised"""
    from scoda.tokenisation.notelike_tokenisation import MultiTrackLargeVocabularyNotelikeTokeniser as Tok
    kw = dict(num_tracks=cfg["tracks"], pitch_range=tuple(cfg["pitch"]), velocity_bins=cfg["bins"], ppqn=cfg.get("ppqn"),
              time_signature_range=tuple(cfg.get("tsr") or (2, 16)),
              flag_running_values=cfg["flags"][0], flag_fuse_track=cfg["flags"][1], flag_fuse_value=cfg["flags"][2],
              flag_fuse_velocity=cfg["flags"][3], flag_simplify_time_signature=cfg.get("simplify", True))
    if cfg["steps"]:
        kw["step_sizes"] = list(cfg["steps"])
    if cfg["values"]:
        kw["note_values"] = list(cfg["values"])
    if kind == "float_pitch_range":
        kw["pitch_range"] = tuple(float(x) for x in kw["pitch_range"])
    elif kind == "float_signature_range":
        kw["time_signature_range"] = (kw["time_signature_range"][0], float(kw["time_signature_range"][1]))
    elif kind == "float_tracks":
        kw["num_tracks"] = float(kw["num_tracks"])
    elif kind == "no_running_time_signature":
        kw["flag_running_time_signature"] = False
    elif kind == "none_pitch_range":
        kw["pitch_range"] = (kw["pitch_range"][0], None)
    try:
        Tok(**kw)
        return False
    except Exception:
        return True


REJECTED_CONSTRUCTORS = ["float_pitch_range", "float_signature_range", "float_tracks", "no_running_time_signature", "none_pitch_range"]


def rand_cfg(rng, i=None, small_vocab=True, bins=None):
    flags = [bool((i >> b) & 1) for b in range(4)] if i is not None else [rng.random() < 0.5 for _ in range(4)]
    pitch = rng.choice(PITCHRANGES)
    b = bins if bins is not None else rng.choice([1, 1, 2, 3, 4, 5, 8, 16, 32])
    tracks = rng.randint(1, 4)
    steps = rng.choice(STEPSETS)
    values = rng.choice(VALUESETS)
    if small_vocab and flags[3] and b >= 16 and pitch[1] - pitch[0] > 20:
        pitch = (60, 72)
    return {"tracks": tracks, "flags": flags, "bins": b, "pitch": list(pitch), "steps": steps, "values": values,
            "simplify": rng.random() < 0.7}


def steps_of(cfg):
    return sorted(cfg["steps"] or DEFAULT_STEPS)


def values_of(cfg):
    return sorted(cfg["values"] or DEFAULT_VALUES)


# ----------------------------------------------------------------------------- rest decomposition notions

def greedy_ok(g, steps):
    """does the largest-step-first decomposition of a gap g succeed?  (the mechanism of the known finding)"""
    steps = sorted(steps)
    while g > 0:
        c = [s for s in steps if s <= g]
        if not c:
            return False
        g -= c[-1]
    return True


def segments(targets, bars):
    """split the gaps between consecutive clock targets at bar lines: [(from, to)] with to <= end of from's bar"""
    ends = [b[0] + b[1] for b in bars]
    segs = []
    for a, b in zip(targets, targets[1:]):
        x = a
        while x < b:
            e = next((e for e in ends if e > x), None)
            y = b if e is None else min(b, e)
            segs.append((x, y))
            x = y
    return segs


def clock_targets(track_notes, ts_ticks, caps):
    return sorted(set([n[2] for ns in track_notes for n in ns] + list(ts_ticks) + [c for c in caps if c is not None] + [0]))


# ----------------------------------------------------------------------------- valid pieces

def valid_piece(rng, cfg, stratum="A", nseg=(1, 3), nbars=(1, 3), max_notes=7, only_sigs=None):
    """A piece meeting the tokeniser's input constraints for cfg.
    stratum A: whole-bar padded, every rest segment decomposes largest-step-first (the documented pipeline);
    stratum B: may be ragged and may need rest decompositions that are not largest-step-first."""
    steps, values = steps_of(cfg), values_of(cfg)
    smax = max(steps)
    for _attempt in range(50):
        lo_ts, hi_ts = cfg.get("tsr") or (2, 16)
        sigs = [s for s in SIGS_OK if lo_ts <= 8 * s[0] // s[1] <= hi_ts]
        if only_sigs:
            sigs = [s for s in sigs if s in only_sigs] or sigs
        bars, ts_ev, total = gen.bar_plan(rng, nseg=nseg, nbars=nbars, sigs=sigs)
        if not bars:
            continue
        ck = orc.coins(steps, max(b[1] for b in bars) + 1)
        # bar lengths themselves must be bridgeable
        if not all(ck[b[1]] for b in bars):
            continue
        if stratum == "A" and not all(greedy_ok(b[1], steps) for b in bars):
            continue
        lo, hi = cfg["pitch"]
        tracks = []
        meta = 0 if rng.random() < 0.8 else rng.randrange(cfg["tracks"])
        for t in range(cfg["tracks"]):
            notes = []
            busy = {}
            pool = sorted(set(rng.randint(lo, hi) for _ in range(3)))
            for _ in range(rng.randint(0, max_notes)):
                b0, bl, _s = rng.choice(bars)
                cand = [x for x in range(bl) if ck[x] and (stratum == "B" or greedy_ok(x, steps))]
                off = rng.choice(cand)
                if stratum == "B" and rng.random() < 0.4:
                    # favour offsets that only a non-largest-first decomposition reaches (9 = 6 + 3 with the default steps)
                    hard = [x for x in cand if not greedy_ok(x, steps)]
                    if hard:
                        off = rng.choice(hard)
                on = b0 + off
                ln = rng.choice(values)
                if stratum == "A" and on + ln > total:
                    fit = [v for v in values if on + v <= total]
                    if not fit:
                        continue
                    ln = rng.choice(fit)
                p = rng.choice(pool)
                iv = busy.setdefault(p, [])
                if any(not (on + ln <= a or on >= b) for a, b in iv):
                    continue
                iv.append((on, on + ln))
                notes.append([0, p, on, ln, rng.randint(1, 127)])
            extra = [["ts", tt, n, d] for (tt, n, d) in ts_ev] if t == meta else []
            spec = {"notes": notes, "extra": extra, "start": rng.choice(["abs", "rel", "both"])}
            if stratum == "A" or rng.random() < 0.4:
                spec["pad"] = total
            tracks.append(spec)
        piece = {"tracks": tracks, "ts": ts_ev, "bars": bars, "total": total, "meta": meta}
        info = analyse(piece, cfg)
        if not info["valid"]:
            continue
        if info["notes"] == 0:
            continue
        if stratum == "A" and (not info["greedy_safe"] or not info["duration_ok"] or info["clock_short"]):
            continue
        piece["info"] = info
        return piece
    return None


def twin_rest_piece(cfg, i):
    """Two signature sections of different bar length; in each, a note ends with the SAME amount of bar remaining and is followed by a
    silence of the SAME length that runs over at least one whole bar -- equal rests, equal position relative to the bar line, different
    bars.  Returns a piece (with its analysis) or None when the configuration cannot carry it."""
    import random
    r = random.Random(f"twin-rest:{i}")
    lo_ts, hi_ts = cfg.get("tsr") or (2, 16)
    pairs = [((4, 4), (3, 4)), ((3, 4), (4, 4)), ((6, 8), (4, 4)), ((2, 4), (3, 4)), ((4, 4), (5, 4)), ((3, 4), (2, 4)), ((4, 4), (6, 8))]
    pairs = [pq for pq in pairs if all(lo_ts <= 8 * sg[0] // sg[1] <= hi_ts for sg in pq)]
    if not pairs:
        return None
    sa, sb = pairs[(i // 13) % len(pairs)]
    A, B = 96 * sa[0] // sa[1], 96 * sb[0] // sb[1]
    values = values_of(cfg)
    v = min(values, key=lambda x: (abs(x - 12), x))
    rem = r.choice([24, 48, 12, 36])
    if rem + v > min(A, B):
        rem, v = 24, min(values)
        if rem + v > min(A, B):
            return None
    R = rem + min(A, B) * r.choice([1, 1, 2]) + r.choice([0, 24, 12])
    nb = 4
    SA = nb * A
    total = SA + nb * B
    lo, hi = cfg["pitch"]
    p1, p2 = lo, min(hi, lo + 1)
    notes = [[0, p1, A - rem - v, v, 64], [0, p2, A - rem + R, v, 65],
             [0, p1, SA + B - rem - v, v, 66], [0, p2, SA + B - rem + R, v, 67]]
    if notes[1][2] + v > SA or notes[3][2] + v > total:
        return None
    bars = [(k * A, A, sa) for k in range(nb)] + [(SA + k * B, B, sb) for k in range(nb)]
    ts_ev = [(0, sa[0], sa[1]), (SA, sb[0], sb[1])]
    tracks = []
    for t in range(cfg["tracks"]):
        tracks.append({"notes": [list(n) for n in notes] if t == (i // 7) % cfg["tracks"] else [],
                       "extra": [["ts", tt, n, d] for (tt, n, d) in ts_ev] if t == 0 else [], "start": r.choice(["abs", "rel", "both"]), "pad": total})
    piece = {"tracks": tracks, "ts": ts_ev, "bars": bars, "total": total, "meta": 0, "twin_rest": [rem, R, A, B]}
    info = analyse(piece, cfg)
    if not info["valid"] or not info["greedy_safe"] or not info["duration_ok"] or info["clock_short"]:
        return None
    piece["info"] = info
    return piece


def analyse(piece, cfg):
    """oracle-side facts about a piece: validity (coin-expressible rest segments), greedy-safety, end closure"""
    steps = steps_of(cfg)
    bars = piece["bars"]
    ev_end = 0
    pad_end = 0
    for t in piece["tracks"]:
        ev_end = max([ev_end] + [n[2] + n[3] for n in t["notes"]] + [x[1] for x in t["extra"]])
        pad_end = max(pad_end, t.get("pad") or 0)
    # the merged sequence keeps a trailing-rest cap only when the padding reaches beyond the last event of ALL tracks
    caps = [pad_end if pad_end > ev_end else None]
    D = max(ev_end, pad_end)
    targets = clock_targets([t["notes"] for t in piece["tracks"]], [x[0] for x in piece["ts"]], caps)
    # bars beyond the plan (source longer than planned bars cannot happen: notes are confined to total in stratum A)
    grid = orc.bar_grid([(t, (n, d)) for (t, n, d) in piece["ts"]], D)
    if targets[-1] > D:
        grid = orc.bar_grid([(t, (n, d)) for (t, n, d) in piece["ts"]], targets[-1])
    gb = [(g[0], g[1]) for g in grid]
    segs = segments(targets, gb)
    last = targets[-1]
    # closing segment: from the last clock target to the end of its bar (only when inside a bar)
    inbar = next(((s, l) for (s, l) in gb if s < last < s + l), None)
    if inbar:
        segs.append((last, inbar[0] + inbar[1]))
    mx = max([b - a for a, b in segs] + [1])
    ck = orc.coins(steps, mx)
    valid = all(ck[b - a] for a, b in segs)
    stuck = [(a, b) for a, b in segs if ck[b - a] and not greedy_ok(b - a, steps)]
    clock_end = inbar[0] + inbar[1] if inbar else last
    ceilD = grid[-1][0] + grid[-1][1] if D > 0 else 0
    return {"valid": valid, "greedy_safe": not stuck, "stuck": stuck[:3], "D": D, "clock_end": clock_end, "ceil_D": ceilD,
            "duration_ok": max(clock_end, D) == ceilD, "clock_short": clock_end < D, "targets": len(targets),
            "notes": sum(len(t["notes"]) for t in piece["tracks"])}


# ----------------------------------------------------------------------------- expected vocabulary (structural reference)

def expected_vocabulary(cfg, bins):
    """the key set implied by the configuration: control tokens, one rest token per step size, separate tokens for the
    unfused parts, the product of the fused parts around the pitch, one tsg token per eighth count in range"""
    steps, values = steps_of(cfg), values_of(cfg)
    fr, ft, fv, fvel = cfg["flags"]
    keys = ["pad", "sta", "sto", "bar"]
    keys += [f"rst_{s:02}" for s in steps]
    parts = []
    if ft:
        parts.append([f"trk_{t:02}" for t in range(cfg["tracks"])])
    else:
        keys += [f"trk_{t:02}" for t in range(cfg["tracks"])]
    parts.append([f"pit_{p:03}" for p in range(cfg["pitch"][0], cfg["pitch"][1] + 1)])
    if fv:
        parts.append([f"val_{v:02}" for v in values])
    else:
        keys += [f"val_{v:02}" for v in values]
    velparts = [f"vel_{int(b):03}" for b in bins]
    if fvel:
        parts.append(velparts)
    else:
        keys += velparts
    keys += ["-".join(c) for c in itertools.product(*parts)]
    lo, hi = cfg.get("tsr") or (2, 16)
    keys += [f"tsg_{n:02}_08" for n in range(lo, hi + 1)]
    return keys

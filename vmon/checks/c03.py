"""C03 — stateful bar-by-bar tokenisation is equivalent to tokenising the whole piece.  Differential monitor over two
real executions (one call vs. every grouping of consecutive bars with one threaded state dictionary) plus a history
monitor on the state dictionary after every call (clock = bars consumed, bar clock = 0, capacity = a whole bar)."""
import itertools

from vmon import gen
from vmon import oracle as orc
from vmon.checks import tokcommon as tc
from vmon.checks.common import obs, fail

SCALE = True   # worker: every fortieth case (or SCALE_EVERY-th) is blown up by scale_case below
PROP = "C03"
MONITORS = ["tokenise", "bar_inv"]
ALSO = ()
INSITU = {"k": "tokenisation"}
TECHNIQUE = "runtime monitoring: differential observer (chunked vs whole tokenisation, compared after detokenise) + history monitor on the carried state dictionary"
RULE = ("seeded pieces laid out as bars (through the real sequences_split_bars with both re-quantisation settings, or Bars built "
        "directly), with empty bars, control / program changes (also on the final tick of a shorter track that ends on the bar line closing a silent bar), bars filled by one note held from the first tick to the bar line, signature changes and tracks of unequal length, x ALL 2^(n-1) partitions of the n <= 7 bars into "
        "consecutive call groups (64 random partitions beyond) x configurations; each partition's concatenated token stream must "
        "detokenise to the same notes, bar grid (signatures in force and cap ticks) and duration as the single-call stream; after "
        "each call the state dictionary must say: clock = sum of bar lengths consumed, in-bar clock 0, remaining capacity a whole "
        "bar. Non-trivial: >= 2 call groups and a note after the first group.")
PLAN = {"quick": {"cases": 700, "jobs": 4, "timeout": 900},
        "thorough": {"cases": 200000, "jobs": 16, "timeout": 3000, "budget_s": 360}}
FLOORS = {"quick": {"c03.partitions_compared": 6000, "c03.state_checked": 15000, "#c03.flags.": 16, "c03.signature_change": 100,
                    "c03.empty_bar": 100, "c03.whole_bar_note": 40, "c03.piece_with_control_events": 150},
          "thorough": {"c03.partitions_compared": 300000, "#c03.flags.": 16}}
GRID = lambda x: x % 4 == 0 or x % 6 == 0  # noqa: E731


def scale_case(case, i):
    """many sparsely filled bars: silences of eight and more bars inside one call, starting and ending in the middle of bars"""
    import random
    r = random.Random(f"c03-big:{i}")
    if case["route"] == "raw":
        return
    cfg = case["cfg"]
    pc = gen.piece(r, ntracks=cfg["tracks"], lens=gen.DEFAULT_NOTE_VALUES, ongrid=GRID, ragged=True, keys=False, cross_bars=False, meta=0,
                   nseg=(1, 2), nbars=(9, 16), max_notes=3, sigs=[(4, 4), (3, 4), (6, 8), (8, 8)], pitches=(60, 62, 72))
    case["piece"] = pc
    case["share_bars"] = False

def make_case(rng, i, tier):
    cfg = tc.rand_cfg(rng, i=i % 16)
    cfg["steps"], cfg["values"] = None, None
    cfg["pitch"] = [55, 80]
    if cfg["bins"] not in tc.BINS_REGULAR:
        cfg["bins"] = 1
    route = rng.choice(["split_q", "split_noq", "direct", "raw"])
    # the routes that do not re-quantise may place onsets anywhere on the tokeniser's own step grid; a third-of-a-beat grid
    # (multiples of 3) puts onsets 9 or 15 ticks in front of bar lines, so that rests across bar lines need mixed step sizes
    grid = (lambda x: x % 3 == 0) if (route in ("direct", "raw") and i % 2 == 1) else GRID
    pc = gen.piece(rng, ntracks=cfg["tracks"], lens=gen.DEFAULT_NOTE_VALUES, ongrid=grid, ragged=(route != "raw"), keys=False,
                   cross_bars=(route not in ("direct", "raw")) and rng.random() < 0.5, meta=0, nseg=(1, 3), nbars=(1, 3), max_notes=7,
                   sigs=[(4, 4), (3, 4), (6, 8), (2, 4), (5, 4), (2, 2), (7, 8), (3, 8), (8, 8), (8, 8), (12, 8)], pitches=(60, 62, 72))
    if route == "direct" and rng.random() < 0.6:
        # bars filled by a single note held from the first tick to the bar line (the bar's last message is a note-off on the
        # bar line, there is no trailing rest and every onset sits on the first tick), followed by ordinary bars
        cfg["values"] = sorted(set(gen.DEFAULT_NOTE_VALUES + [b[1] for b in pc["bars"]]))
        for t in pc["tracks"][:1]:
            for (b0, bl, sig) in pc["bars"]:
                if rng.random() < 0.4:
                    t["notes"] = [n for n in t["notes"] if not (b0 <= n[2] < b0 + bl)] + [[0, 60, b0, bl, 77]]
        for t in pc["tracks"][1:]:
            for (b0, bl, sig) in pc["bars"]:
                if rng.random() < 0.5:
                    t["notes"] = [n for n in t["notes"] if not (b0 <= n[2] < b0 + bl)]
    if route in ("split_q", "split_noq"):
        # control / program changes (the tokeniser ignores them, but they are messages of the bars it is handed: they decide
        # where a bar's sequence ends and whether it ends in a rest); a separate random stream keeps the other cases as they were
        import random
        r2 = random.Random(f"c03-controls:{i}")
        bars = pc["bars"]
        if len(pc["tracks"]) >= 2 and len(bars) >= 3 and r2.random() < 0.4:
            # a bar that is silent in every track, on whose closing bar line a shorter track ends with a control change on its
            # final tick, while another track plays on
            j = r2.randrange(1, len(bars) - 1)
            b0, bl, _sig = bars[j]
            for t in pc["tracks"]:
                t["notes"] = [n for n in t["notes"] if n[2] + n[3] <= b0 or n[2] >= b0 + bl]
            short = pc["tracks"][-1]
            short["notes"] = [n for n in short["notes"] if n[2] + n[3] <= b0]
            short["pad"] = b0 + bl
            short["extra"] = [e for e in short.get("extra", []) if e[1] <= b0 + bl] + [[r2.choice(["cc", "pc"]), b0 + bl, 0, 64, 0][:5]]
            if short["extra"][-1][0] == "pc":
                short["extra"][-1] = ["pc", b0 + bl, 0, 5]
            other = pc["tracks"][0]
            if not any(n[2] >= b0 + bl for n in other["notes"]):
                other["notes"].append([0, 60, b0 + bl, 12, 70])
        for t in pc["tracks"]:
            tend = gen.end_of(t)
            for _ in range(r2.choice([0, 0, 1, 2])):
                tick = r2.choice([tend, r2.randrange(0, tend + 1)] + [b[0] for b in bars if b[0] <= tend])
                t.setdefault("extra", []).append(["cc", tick, 0, r2.randrange(1, 100), r2.randrange(0, 127)])
            if any(e[0] in ("cc", "pc") for e in t.get("extra", [])):
                pc["controls"] = True
    if i % 5 == 2 and len(pc["bars"]) >= 3:
        # ostinato: a later bar repeats an earlier bar note for note (in every track), with other material in between — two
        # calls see identical content while the carried running values / clock differ
        import random
        r8 = random.Random(f"c03-ostinato:{i}")
        bars = pc["bars"]
        pairs = [(a, c) for a in range(len(bars)) for c in range(a + 2, len(bars)) if bars[a][1] == bars[c][1] and tuple(bars[a][2]) == tuple(bars[c][2])]
        if pairs:
            a, c = r8.choice(pairs)
            (a0, al, _), (c0, cl, _) = bars[a], bars[c]
            for t in pc["tracks"]:
                inside = [n for n in t["notes"] if a0 <= n[2] and n[2] + n[3] <= a0 + al]
                t["notes"] = [n for n in t["notes"] if not (c0 <= n[2] < c0 + cl) and not (n[2] < c0 < n[2] + n[3])]
                t["notes"] += [[n[0], n[1], n[2] - a0 + c0, n[3], n[4]] for n in inside]
                if t.get("pad") is None or t["pad"] < c0 + cl:
                    t["pad"] = max(t.get("pad") or 0, c0 + cl) if inside else t.get("pad")
            pc["ostinato"] = [a, c]
            # ... under running values with something left unfused (a prefix token is elided when it repeats the carried value)
            cfg["flags"][0] = True
            cfg["flags"][r8.choice([1, 2, 3])] = False
    if route == "raw":
        # chunks are plain pieces of the whole-bar padded tracks (no Bar objects, hence no signature event at every bar
        # start): the carried state dictionary is the only memory of the signature in force
        for t in pc["tracks"]:
            t["pad"] = pc["total"]
    return {"cfg": cfg, "piece": pc, "route": route, "partition_seed": rng.randrange(10 ** 6), "share_bars": i % 3 == 0 and route != "raw",
            # every fifth case: before every non-first call, a call on the SAME state dictionary that the tokeniser rejects (the chunk
            # with a note outside the pitch range appended); a caller that catches the error and goes on must get the same stream
            "rejected_between": i % 5 == 1 and route != "raw"}


def _detok_obs(tok, toks):
    out = tok.detokenise(toks)
    res = []
    for o in out:
        oo = obs(o)
        caps = sorted(m.time for m in o.abs._messages if m.message_type.value == "internal")
        ts = [(e[0], (e[5], e[6])) for e in oo["non"] if e[1] == orc.TS]
        res.append({"notes": oo["notes"], "dur": oo["dur"], "caps": caps, "ts": ts})
    return res


def run(case, ctx):
    import random
    from vmon.monitors import LOG
    from scoda.elements.bar import Bar
    from scoda.sequences.sequence import Sequence
    cfg, pc = case["cfg"], case["piece"]
    fails = []
    tok = tc.make_tok(cfg)
    LOG.n("c03.flags." + "".join("1" if x else "0" for x in cfg["flags"]))
    if pc.get("controls"):
        LOG.n("c03.piece_with_control_events")
    if pc.get("ostinato"):
        LOG.n("c03.bar_repeated_note_for_note")
    seqs = [gen.build_seq(t) for t in pc["tracks"]]
    raw = case["route"] == "raw"
    if raw:
        tb = None
    elif case["route"] == "direct":
        # bars built directly from per-bar material
        tb = []
        for t in pc["tracks"]:
            trk = []
            for (b0, bl, sig) in pc["bars"]:
                notes = [[c, p, on - b0, ln, v] for (c, p, on, ln, v) in t["notes"] if b0 <= on < b0 + bl and on + ln <= b0 + bl]
                trk.append(Bar(gen.build_seq({"notes": notes, "extra": []}), sig[0], sig[1]))
            tb.append(trk)
    else:
        tb = Sequence.sequences_split_bars(seqs, 0, quantise_note_lengths=(case["route"] == "split_q"))
    if raw:
        nb = len(pc["bars"])
        lens = [b[1] for b in pc["bars"]]
        sigs = [tuple(b[2]) for b in pc["bars"]]
        whole = [q.copy() for q in seqs]
    else:
        nb = len(tb[0])
        lens = [orc.peek(b.sequence)[2] for b in tb[0]]
        sigs = [(b.time_signature_numerator, b.time_signature_denominator) for b in tb[0]]
        # a third of the cases joins the SAME Bar objects again and again (whole piece, then every call group of every
        # partition), as a user holding one list of bars does; the others join copies
        share = case.get("share_bars", False)
        if share:
            LOG.n("c03.same_bar_objects_joined_repeatedly")
        whole = [Bar.to_sequence([b if share else b.copy() for b in trk]) for trk in tb]

    def chunk_empty(a, b):
        if raw:
            lo, hi = sum(lens[:a]), sum(lens[:b])
            return not any(lo <= n[2] < hi for t in pc["tracks"] for n in t["notes"])
        return _chunk_empty(tb, a, b)
    try:
        t_whole = tok.tokenise(whole)
    except Exception as e:
        LOG.n(f"c03.observed.whole_tokenise_raises.{type(e).__name__}")
        # equivalence cuts both ways: if one call over the whole piece is refused, one call per bar must be refused as well
        fl = []
        if not raw:
            try:
                sd0 = {}
                for k in range(nb):
                    tok.tokenise([Bar.to_sequence([trk[k].copy()]) for trk in tb], state_dict=sd0)
                fl.append(fail("whole_piece_refused_but_bar_by_bar_accepted", {"error": f"{type(e).__name__}: {str(e)[:120]}", "bars": nb}))
            except Exception:
                pass
        return {"nontrivial": False, "fails": fl, "shape": ("whole_raises", type(e).__name__)}
    ref = _detok_obs(tok, t_whole)
    if nb <= 7:
        parts = [tuple(i + 1 for i, bit in enumerate(bits) if bit) for bits in itertools.product([0, 1], repeat=nb - 1)]
    else:
        rnd = random.Random(case["partition_seed"])
        parts = [tuple(sorted(rnd.sample(range(1, nb), rnd.randint(0, nb - 1)))) for _ in range(64)]
        parts = list(dict.fromkeys(parts + [tuple(range(1, nb))]))
    first_note_after = {}
    for cuts in parts:
        groups = list(zip((0,) + cuts, cuts + (nb,)))
        sd = {}
        toks = []
        consumed = 0
        ok = True
        if raw:
            pieces = [q.copy().split([sum(lens[a:b]) for (a, b) in groups]) for q in seqs]
            if any(len(p) != len(groups) for p in pieces):
                LOG.n("c03.observed.raw_split_piece_count_mismatch")
                continue
        for gi, (a, b) in enumerate(groups):
            chunk = [p[gi] for p in pieces] if raw else [Bar.to_sequence([bb if share else bb.copy() for bb in trk[a:b]]) for trk in tb]
            if case.get("rejected_between") and gi >= 1 and not raw:
                from scoda.elements.message import Message
                from scoda.enumerations.message_type import MessageType as MT
                bad = [Bar.to_sequence([bb.copy() for bb in trk[a:b]]) for trk in tb]
                lo, hi = cfg["pitch"] if cfg.get("pitch") else (21, 108)
                badp = hi + 1 if hi < 127 else lo - 1
                T = sum(lens[a:b]) - 1
                chn = next((m.channel for m in bad[0].abs._messages if m.message_type == MT.NOTE_ON), 0)
                if 0 <= badp <= 127 and T >= 0:
                    bad[0].add_absolute_message(Message(message_type=MT.NOTE_ON, channel=chn, note=badp, velocity=64, time=T))
                    bad[0].add_absolute_message(Message(message_type=MT.NOTE_OFF, channel=chn, note=badp, time=T + 1))
                    try:
                        tok.tokenise(bad, state_dict=sd)
                        LOG.n("c03.rejected_between.call_was_accepted")
                        ok = None          # the call was accepted: the dictionary has legitimately moved on, this partition says nothing
                        break
                    except Exception:
                        LOG.n("c03.rejected_between.call_raised")
            try:
                toks += tok.tokenise(chunk, state_dict=sd)
            except Exception as e:
                fails.append(fail("chunk_tokenise_raises", {"groups": groups, "error": f"{type(e).__name__}: {str(e)[:120]}"}))
                ok = False
                break
            consumed += sum(lens[a:b])
            LOG.n("c03.state_checked")
            cap_total = 96 * sigs[b - 1][0] // sigs[b - 1][1]
            st = (sd.get("cur_time"), sd.get("cur_time_bar"), sd.get("cur_bar_capacity_remaining"))
            if st[1] != 0 or st[0] != consumed or st[2] != cap_total:
                fails.append(fail("state_dictionary_after_call", {"groups": groups, "after_group": (a, b), "state": st,
                                                                  "expected": (consumed, 0, cap_total)}))
                ok = False
                break
        if ok is None:
            continue
        if not ok:
            break
        got = _detok_obs(tok, toks)
        LOG.n("c03.partitions_compared")
        for k, (r, g) in enumerate(zip(ref, got)):
            for what in ("notes", "dur", "caps"):
                if r[what] != g[what]:
                    fails.append(fail("chunked_differs_from_whole." + what, {"groups": groups, "track": k,
                                                                            "whole": r[what] if what == "dur" else [x for x in r[what] if x not in g[what]][:3],
                                                                            "chunked": g[what] if what == "dur" else [x for x in g[what] if x not in r[what]][:3]}))
            D = max(r["dur"], g["dur"], 1)
            if orc.step_fn(r["ts"], (4, 4), D) != orc.step_fn(g["ts"], (4, 4), D) and \
                    [(x[0], x[1]) for x in orc.bar_grid(r["ts"], D)] != [(x[0], x[1]) for x in orc.bar_grid(g["ts"], D)]:
                fails.append(fail("chunked_differs_from_whole.bar_grid", {"groups": groups, "whole": r["ts"][:4], "chunked": g["ts"][:4]}))
        if fails:
            break
    if len(set(sigs)) > 1:
        LOG.n("c03.signature_change")
    if any(n[3] == bl and n[2] == b0 for t in pc["tracks"] for n in t["notes"] for (b0, bl, _s) in pc["bars"]):
        LOG.n("c03.whole_bar_note")
    if any(chunk_empty(k, k + 1) for k in range(nb)):
        LOG.n("c03.empty_bar")
    notes_after_first = any(n[2] >= lens[0] for r in ref for n in r["notes"])
    return {"nontrivial": nb >= 2 and notes_after_first, "fails": fails[:6],
            "shape": (case["route"], min(nb, 8), cfg["tracks"], "".join("1" if x else "0" for x in cfg["flags"])),
            "observed": {"bars": nb, "partitions": len(parts), "tokens_whole": len(t_whole), "signatures": sigs[:6]}}


def _chunk_empty(tb, a, b):
    return all(not any(m.message_type.value == "note_on" for m in bb.sequence.rel._messages) for trk in tb for bb in trk[a:b])


def _corpus_body(rng, k):
    from vmon import corpus
    from vmon.monitors import LOG
    from scoda.elements.bar import Bar
    from scoda.sequences.sequence import Sequence
    fs = corpus.files()
    f = fs[k % len(fs)]
    name, seqs = corpus.pipeline_piece(f)
    d = max(corpus.duration(s) for s in seqs)
    cut = rng.randrange(192, max(193, min(d, 3000)))
    seqs = [s.split([cut])[0] if corpus.duration(s) > cut else s for s in seqs]
    tb = Sequence.sequences_split_bars(seqs, 0)      # the documented pipeline: cut fragments are re-quantised
    nb = len(tb[0])
    cfg = tc.rand_cfg(rng, i=(k // len(fs)) % 16)
    cfg.update(tracks=len(tb), pitch=[21, 108], steps=None, values=None, bins=rng.choice([1, 4]))
    tok = tc.make_tok(cfg)
    ref = _detok_obs(tok, tok.tokenise([Bar.to_sequence([b.copy() for b in trk]) for trk in tb]))
    parts = [tuple(range(1, nb))] + [tuple(sorted(rng.sample(range(1, nb), rng.randint(0, nb - 1)))) for _ in range(4)] if nb > 1 else [()]
    for cuts in parts:
        sd, toks = {}, []
        for (a, b) in zip((0,) + cuts, cuts + (nb,)):
            toks += tok.tokenise([Bar.to_sequence([bb.copy() for bb in trk[a:b]]) for trk in tb], state_dict=sd)
            LOG.n("c03.state_checked")
            LOG.rec("C03", "corpus", "state_in_bar_clock_zero", sd.get("cur_time_bar") == 0, (name, cuts[:5], sd.get("cur_time_bar")))
        got = _detok_obs(tok, toks)
        LOG.n("c03.partitions_compared")
        for t, (r, g) in enumerate(zip(ref, got)):
            LOG.rec("C03", "corpus", "chunked_equals_whole", r["notes"] == g["notes"] and r["dur"] == g["dur"] and r["caps"] == g["caps"],
                    {"file": name, "cuts": list(cuts)[:8], "track": t, "dur": (r["dur"], g["dur"]),
                     "whole_only": [x for x in r["notes"] if x not in g["notes"]][:3], "chunk_only": [x for x in g["notes"] if x not in r["notes"]][:3]})
    return {"file": name, "bars": nb, "cfg": {k2: cfg[k2] for k2 in ("flags", "bins", "tracks")}}, nb >= 2


def phases(tier):
    from vmon import corpus
    return [("corpus", corpus.phase(7, 7 * 32, _corpus_body))]

"""Aggregates shard reports into a verdict, writes evidence/<id>.json and replay files."""
import collections
import json
import os

from vmon import env, findings

# The evidence files of record describe runs on /repo's working tree only.  A run against another tree (VERIF_REPO: the
# mutation self-test, seeded changes, prototypes of repairs) writes to a git-ignored scratch directory instead.
if env.REPO == "/repo":
    EVID = os.path.join(env.VERIF_ROOT, "evidence")
else:
    EVID = os.path.join(env.VERIF_ROOT, "evidence", "_work", "scratch-tree")
REPLAY = os.path.join(EVID, "replay")


def _strata(mod):
    """names the cross-cutting strata the worker applies to this check (each has its own counter among monitor_counters)"""
    txt = []
    for attr, what in (("SCALE", "large cases every {p}-th case".format(p=getattr(mod, "SCALE_EVERY", 41))),
                       ("DEGEN", "degenerate shapes (empty, rests only, signatures only, single notes, one-tick chords) every 37th case"),
                       ("DRUMS", "channels moved to 9 / 15 / 10 / 8 every 11th case"),
                       ("REJECTED", "a rejected (raising) public call first, every {p}-th case".format(p=getattr(mod, "REJECTED_EVERY", 13))),
                       ("EXTREMES", "extreme legal values every 6th case"), ("RESTATE", "restated signatures every 5th case"),
                       ("SHUFFLE", "shuffled insertion order"), ("SPLIT_WAITS", "rests written as adjacent waits every 5th case"),
                       ("TRACK_CHANNELS", "tracks on other channels every 4th case")):
        if getattr(mod, attr, None):
            txt.append(what)
    return (" Worker strata: " + "; ".join(txt) + ".") if txt else ""


def _trim(obj, n=3000):
    s = json.dumps(obj, default=str)
    if len(s) <= n:
        return obj
    return {"truncated_json": s[:n] + "..."}


def conclude(mod, tier, reports, problems, insitu, wall):
    prop = mod.PROP
    os.makedirs(REPLAY, exist_ok=True)
    seed = env.seed()
    counters = collections.Counter()
    shapes = collections.Counter()
    hashes = set()
    evaluations = 0
    violations = []
    nviol = 0
    known = {}
    cross = collections.Counter()
    samples = []
    phases = {}
    stopped = []
    for r in reports:
        counters.update(r["counters"])
        shapes.update(r["shapes"])
        hashes.update(r["hashes"])
        evaluations += r["evaluations"]
        violations += r["violations"]
        nviol += r["nviol"]
        cross.update(r["cross"])
        for kid, k in r["known"].items():
            d = known.setdefault(kid, {"count": 0, "claims": collections.Counter(), "example": None})
            d["count"] += k["count"]
            d["claims"].update(k["claims"])
            d["example"] = d["example"] or k["example"]
        if len(samples) < 3:
            samples += r["samples"][: 3 - len(samples)]
        for pn, pv in (r.get("phases") or {}).items():
            d = phases.setdefault(pn, {})
            for k2, v2 in pv.items():
                if isinstance(v2, (int, float)) and not isinstance(v2, bool):
                    d[k2] = round(d.get(k2, 0) + v2, 2)
                else:
                    d.setdefault(k2, v2)
        if r.get("stopped"):
            stopped.append(f"shard {r['shard']}: {r['stopped']}")
        if r.get("dropped_violations"):
            problems.append(f"shard {r['shard']}: {r['dropped_violations']} monitor records dropped (log cap)")
    insitu_info = None
    if insitu is not None:
        insitu_info = {k: v for k, v in insitu.items() if k not in ("violations", "known", "counters")}
        counters.update({"insitu." + k: v for k, v in insitu["counters"].items()})
        violations += insitu["violations"]
        nviol += insitu["nviol"]
        for kid, k in insitu["known"].items():
            d = known.setdefault(kid, {"count": 0, "claims": collections.Counter(), "example": None})
            d["count"] += k["count"]
            d["claims"].update(k["claims"])
            d["example"] = d["example"] or k["example"]
        if insitu.get("problem"):
            problems.append("in situ: " + insitu["problem"])

    # floors: deciding monitors must have been armed often enough, else the run decides nothing
    floors = getattr(mod, "FLOORS", {})
    # per-tier dicts: the quick floors are absolute minima and apply to both tiers (the thorough tier is budgeted by wall
    # clock, so its counts depend on machine load; it always exceeds the quick floors unless a monitor stopped being reached)
    floors = floors.get("quick", floors) if floors and isinstance(next(iter(floors.values())), dict) else floors
    unmet = []
    for key, lo in (floors or {}).items():
        if key == "distinct_nontrivial":
            got = len(hashes)
        elif key == "evaluations":
            got = evaluations
        elif key.startswith("#"):
            got = sum(1 for k in counters if k.startswith(key[1:]))
        else:
            got = counters.get(key, 0)
        if got < lo:
            unmet.append(f"{key}={got} < {lo}")
    if len(hashes) < 2:
        unmet.append(f"distinct_nontrivial={len(hashes)} < 2")

    # replay files (stale ones of earlier runs of the same check/tier/seed are removed first)
    import glob
    for old in glob.glob(os.path.join(REPLAY, f"{prop}-{tier}-{seed}-*.json")):
        try:
            os.remove(old)
        except OSError:
            pass
    replay_paths = []
    for k, v in enumerate(violations[:5]):
        p = os.path.join(REPLAY, f"{prop}-{tier}-{seed}-{k}.json")
        with open(p, "w") as f:
            json.dump({"property": prop, "tier": tier, "seed": v.get("seed", seed), "index": v.get("index"),
                       "case": v.get("case"), "fails": v.get("fails"),
                       "replay_cmd": f"./run {prop} --replay {os.path.relpath(p, env.VERIF_ROOT)}"}, f, indent=1, default=str)
        replay_paths.append(p)

    verdict = "violated" if nviol else ("inconclusive" if (problems or unmet) else "held")
    mon = {}
    for k, v in sorted(counters.items()):
        mon[k] = v
    kf_all = [e for e in findings.load().get("known", []) if e.get("property") == prop]
    ev = {
        "property_id": prop,
        "tier": tier,
        "seed": seed,
        "level": getattr(mod, "LEVEL", "exploration"),
        "coverage": {
            "evaluations": evaluations,
            "distinct_nontrivial": len(hashes),
            "rule": mod.RULE + _strata(mod),
            "samples": [_trim(s) for s in samples] or [{"note": "no non-trivial case was produced"}],
            "exhaustive": bool(getattr(mod, "EXHAUSTIVE", False)),
            "shapes": dict(shapes.most_common(60)),
            "distinct_shapes": len(shapes),
            "monitor_counters": mon,
            "phases": phases,
            "floors": floors or {},
            "floors_unmet": unmet,
            "in_situ": insitu_info,
            "cross_property_observations": dict(cross),
            "known_findings_observed": {k: {"count": v["count"], "claims": dict(v["claims"]),
                                            "example": _trim(v["example"], 1500)} for k, v in known.items()},
            "known_findings_listed": [e["id"] for e in kf_all],
            "verdict": verdict,
            "problems": problems + stopped,
            "tree_sha256": env.tree_hash(),
            "tree": env.REPO,
            "violation_examples": [_trim({"index": v.get("index"), "fails": v.get("fails")}, 1500) for v in violations[:5]],
        },
        "assumptions": list(getattr(mod, "ASSUMPTIONS", [])) + [
            "CPython 3.12 and the repository's own environment in /venv",
            "observers in vmon/oracle.py and the monitors in vmon/monitors.py (exercised by selftest/ mutants and seeded/ changes)",
        ],
        "wall_s": round(wall, 2),
        "violations": nviol,
    }
    with open(os.path.join(EVID, f"{prop}.json"), "w") as f:
        json.dump(ev, f, indent=1, default=str)

    armed = sum(v for k, v in counters.items() if k.endswith(".armed"))
    print(f"[{prop}] tier={tier} seed={seed} evaluations={evaluations} distinct_nontrivial={len(hashes)} "
          f"shapes={len(shapes)} monitor_claims_armed={armed} wall={wall:.1f}s tree={env.REPO}")
    if insitu_info:
        print(f"[{prop}] in situ: {insitu_info}")
    for e in kf_all:
        obs = known.get(e["id"], {}).get("count", 0)
        print(f"KNOWN-FINDING: property={prop} {e['id']}: {e['what']} (observed {obs}x in this run)")
    for kid in known:
        if kid not in [e["id"] for e in kf_all]:
            print(f"KNOWN-FINDING: property={prop} {kid}")
    if cross:
        print(f"[{prop}] cross-property monitor observations (not decided here): {dict(cross)}")
    if nviol:
        seen = set()
        for v, p in zip(violations[:5], replay_paths):
            cl = ",".join(sorted(set(f["claim"] for f in v["fails"])))
            print(f"VIOLATION property={prop} replay={p}")
            if cl not in seen:
                seen.add(cl)
                print(f"  claims: {cl}")
                print(f"  witness: {v['fails'][0].get('witness')}")
        print(f"[{prop}] {nviol} violating case(s)")
        return 1
    if problems or unmet:
        print(f"INCONCLUSIVE property={prop} reason={'; '.join(problems + unmet + stopped)[:1500]}")
        return 2
    print(f"[{prop}] held on everything explored")
    return 0
